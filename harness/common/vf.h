// vf.h - shared runtime for the /verif harnesses (header only, C++11).
//   * counter-based PRNG (any case is reproducible from seed/property/case#)
//   * event output (JSON lines) + hash side file for distinct-case counting
//   * crash context (phase marker written from a signal handler)
//   * LSan helper that captures a leak report and derives a key from it
#pragma once
#include <cstdio>
#include <cstdlib>
#include <cstring>
#include <cstdint>
#include <cmath>
#include <string>
#include <vector>
#include <map>
#include <set>
#include <sstream>
#include <algorithm>
#include <csignal>
#include <unistd.h>
#include <fcntl.h>
#include <sys/resource.h>

#if defined(__SANITIZE_ADDRESS__)
#include <sanitizer/lsan_interface.h>
#include <sanitizer/common_interface_defs.h>
#define VF_HAVE_ASAN 1
#else
#define VF_HAVE_ASAN 0
#endif

namespace vf {

// ---------------------------------------------------------------- PRNG
static inline uint64_t splitmix64(uint64_t &s) {
	uint64_t z = (s += 0x9E3779B97F4A7C15ULL);
	z = (z ^ (z >> 30)) * 0xBF58476D1CE4E5B9ULL;
	z = (z ^ (z >> 27)) * 0x94D049BB133111EBULL;
	return z ^ (z >> 31);
}
static inline uint64_t hash_str(const std::string &s) {
	uint64_t h = 1469598103934665603ULL;
	for (unsigned char c : s) { h ^= c; h *= 1099511628211ULL; }
	return h;
}
struct Rng {
	uint64_t s;
	Rng(uint64_t seed, const std::string &stream, uint64_t n) {
		uint64_t a = seed * 0x9E3779B97F4A7C15ULL + 0x1234567ULL;
		uint64_t t = splitmix64(a) ^ hash_str(stream);
		uint64_t b = t + n * 0xD1342543DE82EF95ULL;
		uint64_t x = splitmix64(b), y = splitmix64(t);
		s = n == 0 ? ~x : x ^ y; // (for n == 0 the two values coincide: without the special case the state of case 0 would be 0 for every seed and stream)
	}
	uint64_t u64() { return splitmix64(s); }
	// uniform integer in [0,n)
	uint64_t below(uint64_t n) { return n ? u64() % n : 0; }
	int range(int a, int b) { return a + (int)below((uint64_t)(b - a + 1)); } // inclusive
	double U() { return ((u64() >> 11) + 0.5) * (1.0 / 9007199254740992.0); } // (0,1)
	bool coin(double p) { return U() < p; }
	double normal() { double u = U(), v = U(); return std::sqrt(-2 * std::log(u)) * std::cos(6.283185307179586 * v); }
	template <class T> const T &pick(const std::vector<T> &v) { return v[below(v.size())]; }
};

// ---------------------------------------------------------------- output
struct Out {
	FILE *f = nullptr;
	int fd = -1;
	std::string path;
	std::map<std::string, long> counters;
	std::set<uint64_t> distinct;
	std::vector<std::string> samples;
	long nviol = 0;
	long cur_case = -1;
};
static Out &out() { static Out o; return o; }
static std::string &prop_id() { static std::string p; return p; }

static inline std::string jesc(const std::string &s) {
	std::string r;
	for (unsigned char c : s) {
		if (c == '"' || c == '\\') { r += '\\'; r += c; }
		else if (c == '\n') r += "\\n";
		else if (c < 0x20 || c >= 0x7f) { char b[8]; snprintf(b, 8, "\\u%04x", c); r += b; }
		else r += c;
	}
	return r;
}
static inline std::string jstr(const std::string &s) { return "\"" + jesc(s) + "\""; }
static inline std::string jnum(double v) {
	if (std::isnan(v)) return "\"nan\"";
	if (std::isinf(v)) return v > 0 ? "\"inf\"" : "\"-inf\"";
	char b[40]; snprintf(b, 40, "%.17g", v); return b;
}
static inline std::string jhex(double v) { char b[48]; snprintf(b, 48, "\"%a\"", v); return b; }
template <class T> static inline std::string jarr(const std::vector<T> &v) {
	std::ostringstream s; s << "[";
	for (size_t i = 0; i < v.size(); i++) { if (i) s << ","; s << v[i]; }
	s << "]"; return s.str();
}
static inline std::string jarrd(const std::vector<double> &v) {
	std::string s = "[";
	for (size_t i = 0; i < v.size(); i++) { if (i) s += ","; s += jnum(v[i]); }
	return s + "]";
}
static inline std::string jarrd(const double *v, size_t n) { return jarrd(std::vector<double>(v, v + n)); }

// crash context
static volatile const char *g_phase = "init";
static char g_phase_buf[256];
static inline void phase(const char *p) { g_phase = p; }
// phase that is also written to the event file (lets the driver attribute a hang, which ends in SIGKILL, to an entry point)
static inline void phase_log(const std::string &p);
static inline void phasef(const std::string &p) { strncpy(g_phase_buf, p.c_str(), 255); g_phase_buf[255] = 0; g_phase = g_phase_buf; }

static void sig_handler(int sig) {
	char b[400];
	int n = snprintf(b, sizeof b, "{\"t\":\"signal\",\"sig\":%d,\"case\":%ld,\"phase\":\"%s\"}\n", sig, out().cur_case, (const char *)g_phase);
	if (out().fd >= 0) { ssize_t r = write(out().fd, b, n); (void)r; }
	signal(sig, SIG_DFL);
	raise(sig);
}

static inline void open_out(const std::string &path) {
	Out &o = out();
	if (const char *lim = getenv("VF_RLIMIT_AS_MB")) { // production-build passes: huge requests must fail as bad_alloc, not exhaust the machine
		struct rlimit rl; rl.rlim_cur = rl.rlim_max = (rlim_t)atol(lim) << 20; setrlimit(RLIMIT_AS, &rl);
	}
	o.path = path;
	o.f = fopen(path.c_str(), "w");
	if (!o.f) { perror("open out"); _exit(2); }
	setvbuf(o.f, nullptr, _IOLBF, 0);
	o.fd = fileno(o.f);
	int sigs[] = {SIGSEGV, SIGBUS, SIGFPE, SIGABRT, SIGILL};
	for (int s : sigs) signal(s, sig_handler);
}
static inline void begin_case(long n) {
	Out &o = out(); o.cur_case = n;
	fprintf(o.f, "{\"t\":\"begin\",\"case\":%ld}\n", n); fflush(o.f);
	phase("case-setup");
}
static inline void phase_log(const std::string &p) { phasef(p); Out &o = out(); fprintf(o.f, "{\"t\":\"phase\",\"p\":%s}\n", jstr(p).c_str()); fflush(o.f); }
// free-form description of the current case, attached by the driver to crash/hang witnesses (not part of any key)
static inline void context(const std::string &c) { Out &o = out(); fprintf(o.f, "{\"t\":\"ctx\",\"v\":%s}\n", jstr(c).c_str()); fflush(o.f); }
static inline void count(const std::string &k, long d = 1) { out().counters[k] += d; }
static inline void distinct(uint64_t h) { out().distinct.insert(h); }
static inline void sample(const std::string &json, size_t max = 4) {
	if (out().samples.size() < max) out().samples.push_back(json);
}
// one violation event; key must be deterministic and line-number free
static inline void viol(const std::string &key, const std::string &detail_json) {
	Out &o = out(); o.nviol++;
	fprintf(o.f, "{\"t\":\"viol\",\"case\":%ld,\"key\":%s,\"detail\":%s}\n", o.cur_case, jstr(key).c_str(),
	        detail_json.empty() ? "{}" : detail_json.c_str());
	fflush(o.f);
}
// observation that is not a verdict (logged in evidence)
static inline void note(const std::string &key) { count("note:" + key); }

static inline void flush_cores();
static inline void finish() {
	Out &o = out();
	flush_cores();
	std::string s = "{\"t\":\"done\",\"counters\":{";
	bool first = true;
	for (auto &kv : o.counters) { if (!first) s += ","; first = false; s += jstr(kv.first) + ":" + std::to_string(kv.second); }
	s += "},\"samples\":[";
	for (size_t i = 0; i < o.samples.size(); i++) { if (i) s += ","; s += o.samples[i]; }
	s += "]}\n";
	fputs(s.c_str(), o.f); fflush(o.f);
	std::string hp = o.path + ".hashes";
	FILE *h = fopen(hp.c_str(), "ab");
	if (h) { for (uint64_t v : o.distinct) fwrite(&v, 8, 1, h); fclose(h); }
	fclose(o.f); o.f = nullptr;
}
// flush partial state before a deliberate early exit (e.g. after a leak was reported)
static inline void finish_early_and_exit() {
	Out &o = out();
	fprintf(o.f, "{\"t\":\"restart\",\"case\":%ld}\n", o.cur_case);
	finish();
	fflush(stdout); fflush(stderr);
	_exit(0);
}

// ---------------------------------------------------------------- leak check (ASan builds)
// returns "" if no leak, otherwise a key fragment built from the innermost non-runtime frames
static inline std::string leak_check(const std::string &tmpdir) {
#if VF_HAVE_ASAN
	std::string base = tmpdir + "/lsan." + std::to_string((long)getpid());
	__sanitizer_set_report_path(base.c_str());
	int r = __lsan_do_recoverable_leak_check();
	__sanitizer_set_report_path("stderr");
	if (!r) return "";
	std::string rp = base + "." + std::to_string((long)getpid());
	FILE *f = fopen(rp.c_str(), "r");
	std::string frames;
	std::set<std::string> seen;
	if (f) {
		char line[2048];
		bool inblock = false; int taken = 0;
		while (fgets(line, sizeof line, f)) {
			fputs(line, stderr);
			if (strstr(line, "leak of")) { inblock = true; taken = 0; continue; }
			if (!inblock) continue;
			char *in = strstr(line, " in ");
			if (!in) { if (line[0] == '\n') inblock = false; continue; }
			std::string fn = in + 4;
			size_t sp = fn.find_first_of(" (<\n");
			// keep namespace-qualified name, strip args/templates
			std::string name = fn.substr(0, sp);
			if (name.find("__interceptor") == 0 || name.find("operator new") == 0 || name.find("__gnu_cxx") == 0 ||
			    name.find("std::") == 0 || name == "operator" || name.find("allocate") != std::string::npos) continue;
			if (taken < 2) {
				if (taken == 0 && seen.count(name)) { taken = 2; continue; }
				if (taken == 0) seen.insert(name);
				if (!frames.empty() && taken == 0) frames += ";";
				else if (taken) frames += "<";
				frames += name; taken++;
			}
		}
		fclose(f);
		unlink(rp.c_str());
	}
	if (frames.empty()) frames = "unknown";
	if (frames.size() > 200) frames.resize(200);
	return frames;
#else
	(void)tmpdir; return "";
#endif
}

// ---------------------------------------------------------------- args
struct Args {
	std::string prop, outpath, tier = "quick", tmpdir = "/tmp", replay;
	uint64_t seed = 1;
	long from = 0, to = 0;
	bool verbose = false;
	std::map<std::string, std::string> extra;
};
static inline Args parse_args(int argc, char **argv) {
	Args a;
	if (argc < 2) { fprintf(stderr, "usage: %s <prop> --seed S --from A --to B --out F [--tier T] [--tmp D] [--verbose]\n", argv[0]); _exit(2); }
	a.prop = argv[1]; prop_id() = a.prop;
	for (int i = 2; i < argc; i++) {
		std::string k = argv[i];
		auto next = [&]() -> std::string { if (i + 1 >= argc) { fprintf(stderr, "missing value for %s\n", k.c_str()); _exit(2); } return argv[++i]; };
		if (k == "--seed") a.seed = strtoull(next().c_str(), 0, 10);
		else if (k == "--from") a.from = atol(next().c_str());
		else if (k == "--to") a.to = atol(next().c_str());
		else if (k == "--out") a.outpath = next();
		else if (k == "--tier") a.tier = next();
		else if (k == "--tmp") a.tmpdir = next();
		else if (k == "--verbose") a.verbose = true;
		else if (k.size() > 2 && k[0] == '-' && k[1] == '-') a.extra[k.substr(2)] = next();
	}
	if (a.outpath.empty()) { fprintf(stderr, "--out required\n"); _exit(2); }
	return a;
}

static inline uint64_t hash_mix(uint64_t h, uint64_t v) { h ^= v + 0x9E3779B97F4A7C15ULL + (h << 6) + (h >> 2); return h * 0xff51afd7ed558ccdULL; }
static inline uint64_t hash_d(uint64_t h, double v) { uint64_t b; memcpy(&b, &v, 8); return hash_mix(h, b); }
static inline bool biteq(double a, double b) { return memcmp(&a, &b, 8) == 0; }
static inline bool biteqf(float a, float b) { return memcmp(&a, &b, 4) == 0; }

} // namespace vf

// ---------------------------------------------------------------- repo hooks (H1 core trace, H2 search cap)
namespace vf {
struct CoreSlot { const char *fn; long n; };
static CoreSlot g_cores[1024];
static inline std::string core_name(const char *pf) {
	// "... splinetable<Alloc>::ndsplineeval_coreD_FixedOrder(...) const [with Float = float; unsigned int D = 3; unsigned int O = 2; Alloc = ...]"
	std::string s = pf, name = s;
	size_t par = s.find('(');
	if (par != std::string::npos) { size_t c = s.rfind("::", par); name = s.substr(c == std::string::npos ? 0 : c + 2, par - (c == std::string::npos ? 0 : c + 2)); }
	if (name.find("ndsplineeval_") == 0) name = name.substr(13);
	std::string args;
	size_t w = s.find("[with ");
	if (w != std::string::npos) {
		std::string rest = s.substr(w + 6);
		const char *keys[] = {"Float = ", "D = ", "O = ", "Order = ", "Orders = "};
		for (const char *k : keys) {
			size_t a = rest.find(k);
			if (a == std::string::npos) continue;
			// make sure it is a whole identifier ("O = " must not match "Float = "... it cannot) and not part of 'Order'/'Orders'
			if (a > 0 && (isalnum((unsigned char)rest[a - 1]) || rest[a - 1] == '_')) {
				a = rest.find(std::string("int ") + k); if (a == std::string::npos) continue; a += 4;
			}
			size_t b = rest.find_first_of(";]", a);
			std::string v = rest.substr(a + strlen(k), b - a - strlen(k));
			std::string vv; for (char c : v) if (c != ' ' && c != '{' && c != '}') vv += c;
			if (!args.empty()) args += ",";
			args += vv;
		}
	}
	return name + "<" + args + ">";
}
static inline void flush_cores() {
	for (auto &c : g_cores) if (c.fn) { out().counters["core:" + core_name(c.fn)] += c.n; c.n = 0; }
}
}
extern "C" void photospline_verif_core(const char *fn) {
	size_t h = ((size_t)fn >> 3) & 1023;
	for (int i = 0; i < 1024; i++) {
		vf::CoreSlot &c = vf::g_cores[(h + i) & 1023];
		if (c.fn == fn) { c.n++; return; }
		if (!c.fn) { c.fn = fn; c.n = 1; return; }
	}
}
extern "C" void photospline_verif_search_overrun(void) {
	vf::viol(vf::prop_id() + ":search-overrun:searchcenters", "{\"what\":\"binary search exceeded 64 steps\"}");
	vf::finish_early_and_exit();
}
