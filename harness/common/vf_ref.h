// vf_ref.h - independent long-double reference for tensor-product B-splines and their
// derivatives, written from the Cox-de Boor definition on an explicitly chosen polynomial piece.
#pragma once
#include "vf_spec.h"

namespace vf {
typedef long double LD;

// piece index per the property's convention: below top = knot[nknots-order-1] the largest j with
// knot[j] <= x (right piece), from there upwards the largest j with knot[j] < x (left piece)
static inline int ref_piece(const std::vector<double> &k, int order, double x) {
	int nk = (int)k.size(); double top = k[nk - order - 1]; int j = -1;
	if (x < top) { for (int i = 0; i < nk; i++) if (k[i] <= x) j = i; }
	else { for (int i = 0; i < nk; i++) if (k[i] < x) j = i; }
	return j;
}
// half-open convention everywhere (used by the fitter): largest j with knot[j] <= x
static inline int ref_piece_halfopen(const std::vector<double> &k, double x) {
	int j = -1; for (int i = 0; i < (int)k.size(); i++) if (k[i] <= x) j = i; return j;
}
// value v and absolute-magnitude m of the der-th derivative of B_{i,p} restricted to piece j, at x
static inline void ref_bsp(const std::vector<double> &k, int i, int p, int j, LD x, int der, LD &v, LD &m) {
	int nk = (int)k.size();
	if (i < 0 || i + p + 1 > nk - 1) { v = 0; m = 0; return; }
	if (j < i || j > i + p) { v = 0; m = 0; return; }
	if (p == 0) { if (der > 0) { v = 0; m = 0; } else { v = (i == j) ? 1 : 0; m = v; } return; }
	LD v1, m1, v2, m2;
	LD d1 = (LD)k[i + p] - (LD)k[i], d2 = (LD)k[i + p + 1] - (LD)k[i + 1];
	if (der == 0) {
		ref_bsp(k, i, p - 1, j, x, 0, v1, m1); ref_bsp(k, i + 1, p - 1, j, x, 0, v2, m2);
		LD a = d1 != 0 ? (x - (LD)k[i]) / d1 : 0, b = d2 != 0 ? ((LD)k[i + p + 1] - x) / d2 : 0;
		v = a * v1 + b * v2; m = fabsl(a) * m1 + fabsl(b) * m2;
	} else {
		ref_bsp(k, i, p - 1, j, x, der - 1, v1, m1); ref_bsp(k, i + 1, p - 1, j, x, der - 1, v2, m2);
		LD a = d1 != 0 ? (LD)p / d1 : 0, b = d2 != 0 ? (LD)p / d2 : 0;
		v = a * v1 - b * v2; m = fabsl(a) * m1 + fabsl(b) * m2;
	}
}
struct DimBasis { int piece = -1; int lo = 0; std::vector<LD> v, m; };
// all stored basis functions that can be non-zero on the piece (others are exactly zero)
static inline DimBasis ref_dim_basis(const std::vector<double> &k, int order, double x, int der, int piece = -2) {
	DimBasis b; int nax = (int)k.size() - order - 1;
	b.piece = piece == -2 ? ref_piece(k, order, x) : piece;
	int lo = std::max(0, b.piece - order), hi = std::min(nax - 1, b.piece);
	b.lo = lo;
	for (int i = lo; i <= hi; i++) { LD v, m; ref_bsp(k, i, order, b.piece, (LD)x, der, v, m); b.v.push_back(v); b.m.push_back(m); }
	return b;
}
struct RefVal { LD S = 0, M = 0; size_t nterms = 0; LD maxbasis = 1; /* product over dimensions of the largest |basis value| */
	// the float path holds basis values, partial products and the sum in floats: beyond this it legitimately overflows
	bool float_range_ok() const { return M < 1e36L && maxbasis < 1e30L; } };
// S = sum c * prod B ; M = sum |c| * prod |B|  over all stored coefficients (zero-basis terms skipped: they are exactly 0)
static inline RefVal ref_eval(const Spec &s, const std::vector<DimBasis> &bs) {
	int nd = s.ndim(); RefVal r;
	std::vector<size_t> stride(nd); size_t st = 1;
	for (int d = nd - 1; d >= 0; d--) { stride[d] = st; st *= (size_t)s.naxes(d); }
	for (int d = 0; d < nd; d++) { LD mx = 0; for (LD q : bs[d].m) mx = std::max(mx, q); r.maxbasis *= std::max<LD>(mx, 1); } // only factors above one count: inf*0 is the hazard
	for (int d = 0; d < nd; d++) if (bs[d].v.empty()) return r;
	std::vector<size_t> idx(nd, 0);
	while (true) {
		LD pv = 1, pm = 1; size_t lin = 0;
		for (int d = 0; d < nd; d++) { pv *= bs[d].v[idx[d]]; pm *= bs[d].m[idx[d]]; lin += (size_t)(bs[d].lo + idx[d]) * stride[d]; }
		LD c = (LD)s.coef[lin];
		r.S += pv * c; r.M += pm * fabsl(c); r.nterms++;
		int d = nd - 1;
		while (d >= 0 && ++idx[d] == bs[d].v.size()) { idx[d] = 0; d--; }
		if (d < 0) break;
	}
	return r;
}
static inline RefVal ref_eval_point(const Spec &s, const double *x, const unsigned *ders) {
	std::vector<DimBasis> bs;
	for (int d = 0; d < s.ndim(); d++) bs.push_back(ref_dim_basis(s.knots[d], s.order[d], x[d], ders ? (int)ders[d] : 0));
	return ref_eval(s, bs);
}
// tolerance of DESIGN 2.5; u = 2^-24 (float path) or 2^-53 (double path)
static inline LD ref_tol(const Spec &s, const RefVal &r, bool dbl) {
	LD u = dbl ? ldexpl(1, -53) : ldexpl(1, -24), eta = dbl ? ldexpl(1, -1074) : ldexpl(1, -149);
	size_t nterms = s.block(); int so = 0, nd = s.ndim();
	for (int d = 0; d < nd; d++) so += s.order[d] + 2;
	LD cmax = 0; for (float c : s.coef) if (std::isfinite(c)) cmax = std::max(cmax, fabsl((LD)c));
	LD K = (LD)(3 * so + nterms + 8);
	// the float result is returned through a Float accumulator: one more rounding of |S| itself is inside K*u*M (|S|<=M)
	// gradual-underflow floor: every product may lose up to eta/2 absolutely; a basis product that underflowed is then scaled by |c|
	return K * u * r.M + (LD)nterms * (nd + 2) * std::max<LD>(1, cmax) * eta;
}

// self-check of the reference (partition of unity, derivative vs. difference quotient inside a piece)
static inline bool ref_selfcheck(std::string &why) {
	Rng r(12345, "selfcheck", 0);
	for (int t = 0; t < 60; t++) {
		unsigned o = (unsigned)r.below(6); int nk = 2 * o + 2 + (int)r.below(6);
		std::vector<double> k = gen_knots(r, o, nk, 1, 1.0, r.U(), true);
		Spec s; s.order = {o}; s.knots = {k}; s.coef.assign(nk - o - 1, 1.f);
		// partition of unity in full support
		for (int q = 0; q < 10; q++) {
			double x = k[o] + (k[nk - o - 1] - k[o]) * r.U();
			RefVal v = ref_eval_point(s, &x, nullptr);
			if (fabsl(v.S - 1) > 1e-15L) { why = "partition of unity"; return false; }
		}
		// derivative vs central difference strictly inside one piece
		for (auto &c : s.coef) c = (float)(r.U() - 0.5);
		for (int q = 0; q < 10 && o >= 1; q++) {
			int j = (int)r.range(o, nk - o - 2);
			LD a = k[j], b = k[j + 1]; if (b - a <= 0) continue;
			double x = (double)(a + (b - a) * (0.3 + 0.4 * r.U()));
			LD h = (b - a) * 1e-5L;
			auto val = [&](LD xx, int der) { LD S = 0; for (int i = 0; i < nk - (int)o - 1; i++) { LD v, m; ref_bsp(k, i, o, j, xx, der, v, m); S += v * s.coef[i]; } return S; };
			for (int der = 1; der <= (int)o && der <= 3; der++) {
				LD fd = (val((LD)x + h, der - 1) - val((LD)x - h, der - 1)) / (2 * h), an = val(x, der);
				LD sc = fabsl(an) + fabsl(val(x, der - 1)) / (b - a) + 1e-30L;
				if (fabsl(fd - an) > 1e-6L * sc * 100) { why = "derivative vs difference quotient (der " + std::to_string(der) + ")"; return false; }
			}
		}
	}
	return true;
}
} // namespace vf
