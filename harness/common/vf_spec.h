// vf_spec.h - table specifications, an independent FITS writer (raw cfitsio calls in the
// documented layout), a cfitsio-free raw FITS encoder/decoder, and the stratified generator.
#pragma once
#include "vf.h"
#include <photospline/splinetable.h>
#include <limits>

namespace vf {

struct Spec {
	std::vector<unsigned> order;
	std::vector<std::vector<double>> knots;
	std::vector<float> coef;          // C order, axis 0 slowest; size = prod(naxes)
	std::vector<double> periods;      // empty = no PERIODk keys
	bool has_extents = true;
	std::vector<double> extents;      // 2*ndim; empty = derive from knots
	bool legacy_single_order = false; // write one ORDER key (requires equal orders)
	std::vector<std::pair<std::string, std::string>> aux; // written as string keys
	std::string flavor;               // generator stratum label (evidence only)

	int ndim() const { return (int)order.size(); }
	long naxes(int d) const { return (long)knots[d].size() - (long)order[d] - 1; }
	size_t ncoef() const { size_t t = 1; for (int d = 0; d < ndim(); d++) t *= (size_t)naxes(d); return t; }
	size_t block() const { size_t t = 1; for (int d = 0; d < ndim(); d++) t *= order[d] + 1; return t; }
	std::vector<double> ext() const {
		if (!extents.empty()) return extents;
		std::vector<double> e;
		for (int d = 0; d < ndim(); d++) { e.push_back(knots[d][order[d]]); e.push_back(knots[d][knots[d].size() - order[d] - 1]); }
		return e;
	}
	uint64_t hash() const {
		uint64_t h = 7;
		for (int d = 0; d < ndim(); d++) { h = hash_mix(h, order[d]); for (double k : knots[d]) h = hash_d(h, k); }
		for (size_t i = 0; i < coef.size() && i < 64; i++) h = hash_d(h, coef[i]);
		return h;
	}
	std::string brief() const {
		std::string s = "{\"ndim\":" + std::to_string(ndim()) + ",\"order\":" + jarr(order) + ",\"nknots\":[";
		for (int d = 0; d < ndim(); d++) { if (d) s += ","; s += std::to_string(knots[d].size()); }
		s += "],\"flavor\":" + jstr(flavor) + "}";
		return s;
	}
	std::string full_json() const {
		std::string s = "{\"order\":" + jarr(order) + ",\"knots\":[";
		for (int d = 0; d < ndim(); d++) { if (d) s += ","; s += jarrd(knots[d]); }
		s += "],\"ncoef\":" + std::to_string(coef.size()) + ",\"coef_head\":[";
		for (size_t i = 0; i < coef.size() && i < 32; i++) { if (i) s += ","; s += jnum(coef[i]); }
		s += "],\"flavor\":" + jstr(flavor) + "}";
		return s;
	}
};

// ---- independent writer: raw cfitsio calls, documented layout -----------------------------
struct Bytes { void *p = nullptr; size_t n = 0; };
static inline Bytes mkfits(const Spec &s) {
	fitsfile *f; int st = 0; size_t sz = 2880; void *buf = calloc(1, sz); // zeroed: cfitsio scans the fresh buffer for END cards (memcheck noise otherwise)
	fits_create_memfile(&f, &buf, &sz, 2880, realloc, &st);
	int nd = s.ndim();
	std::vector<long> nax(nd); long tot = 1;
	for (int i = 0; i < nd; i++) { nax[i] = s.naxes(nd - 1 - i); tot *= nax[i]; }
	fits_create_img(f, FLOAT_IMG, nd, nax.data(), &st);
	std::vector<long> fp(nd, 1);
	std::vector<float> c = s.coef; c.resize(tot, 1.f);
	fits_write_pix(f, TFLOAT, fp.data(), tot, c.data(), &st);
	if (s.legacy_single_order) { int o = s.order[0]; fits_write_key(f, TINT, "ORDER", &o, NULL, &st); }
	else for (int i = 0; i < nd; i++) { char k[32]; snprintf(k, 32, "ORDER%d", i); int o = s.order[i]; fits_write_key(f, TINT, k, &o, NULL, &st); }
	for (size_t i = 0; i < s.periods.size(); i++) { char k[32]; snprintf(k, 32, "PERIOD%zu", i); double p = s.periods[i]; fits_write_key(f, TDOUBLE, k, &p, NULL, &st); }
	for (auto &kv : s.aux) fits_write_key(f, TSTRING, kv.first.c_str(), (void *)kv.second.c_str(), NULL, &st);
	for (int i = 0; i < nd; i++) {
		long n = s.knots[i].size(); fits_create_img(f, DOUBLE_IMG, 1, &n, &st);
		char k[32]; snprintf(k, 32, "KNOTS%d", i); fits_update_key(f, TSTRING, "EXTNAME", k, NULL, &st);
		long one = 1; fits_write_pix(f, TDOUBLE, &one, n, (void *)s.knots[i].data(), &st);
	}
	if (s.has_extents) {
		long n = 2 * nd; fits_create_img(f, DOUBLE_IMG, 1, &n, &st);
		fits_update_key(f, TSTRING, "EXTNAME", (void *)"EXTENTS", NULL, &st);
		std::vector<double> e = s.ext(); long one = 1; fits_write_pix(f, TDOUBLE, &one, n, e.data(), &st);
	}
	fits_close_file(f, &st);
	if (st) { fits_report_error(stderr, st); fprintf(stderr, "vf::mkfits failed\n"); _exit(2); }
	Bytes b; b.p = buf; b.n = sz; return b;
}
// load a spec into a library table (harness failure if the library refuses a well-formed file)
template <class Table> static inline bool load(Table &T, const Spec &s) {
	Bytes b = mkfits(s);
	bool ok = true;
	try { T.read_fits_mem(b.p, b.n); } catch (std::exception &e) { ok = false; fprintf(stderr, "load: %s\n", e.what()); }
	free(b.p);
	return ok;
}

// ---- raw FITS (no cfitsio) -----------------------------------------------------------------
struct RawHDU {
	std::vector<std::string> cards; // 80 chars each, END excluded
	std::vector<unsigned char> data; // unpadded, big endian
};
static inline std::string pad80(std::string s) { s.resize(80, ' '); return s; }
static inline std::string card_raw(const std::string &key, const std::string &val20, const std::string &comment = "") {
	char b[120]; snprintf(b, sizeof b, "%-8.8s= %20s%s%s", key.c_str(), val20.c_str(), comment.empty() ? "" : " / ", comment.c_str());
	return pad80(b);
}
static inline std::string card_int(const std::string &key, long v) { return card_raw(key, std::to_string(v)); }
static inline std::string card_log(const std::string &key, bool v) { return card_raw(key, v ? "T" : "F"); }
static inline std::string card_dbl(const std::string &key, double v) { char b[40]; snprintf(b, 40, "%.16G", v); std::string s = b; if (s.find_first_of(".EN") == std::string::npos) s += "."; return card_raw(key, s); }
static inline std::string card_str(const std::string &key, const std::string &v) {
	std::string q;
	for (char c : v) { q += c; if (c == '\'') q += '\''; }
	if (key.size() > 8) return pad80("HIERARCH " + key + " = '" + q + "'"); // ESO HIERARCH convention for long keywords
	while (q.size() < 8) q += ' ';
	char b[160]; snprintf(b, sizeof b, "%-8.8s= '%s'", key.c_str(), q.c_str());
	return pad80(b);
}
static inline std::string card_key(const std::string &c) { std::string k = c.substr(0, 8); while (!k.empty() && k.back() == ' ') k.pop_back(); return k; }
// value field of a card (text between "= " and " /"), quotes kept
static inline bool card_value(const RawHDU &h, const std::string &key, std::string &val) {
	for (auto &c : h.cards) if (card_key(c) == key && c.size() >= 10 && c[8] == '=') {
		std::string v = c.substr(10);
		if (!v.empty() && v.find_first_not_of(' ') != std::string::npos && v[v.find_first_not_of(' ')] == '\'') {
			size_t a = v.find('\''), i = a + 1; std::string o;
			while (i < v.size()) { if (v[i] == '\'') { if (i + 1 < v.size() && v[i + 1] == '\'') { o += '\''; i += 2; continue; } break; } o += v[i++]; }
			val = o; return true;
		}
		size_t sl = v.find('/'); if (sl != std::string::npos) v = v.substr(0, sl);
		size_t a = v.find_first_not_of(' '), b = v.find_last_not_of(' ');
		val = a == std::string::npos ? "" : v.substr(a, b - a + 1); return true;
	}
	return false;
}
static inline bool card_long(const RawHDU &h, const std::string &key, long &v) { std::string s; if (!card_value(h, key, s)) return false; char *e; v = strtol(s.c_str(), &e, 10); return e != s.c_str(); }
static inline void set_card(RawHDU &h, const std::string &key, const std::string &card) {
	for (auto &c : h.cards) if (card_key(c) == key) { c = card; return; }
	h.cards.push_back(card);
}
static inline void del_card(RawHDU &h, const std::string &key) {
	for (size_t i = 0; i < h.cards.size(); i++) if (card_key(h.cards[i]) == key) { h.cards.erase(h.cards.begin() + i); return; }
}
static inline std::vector<unsigned char> raw_encode(const std::vector<RawHDU> &hdus) {
	std::vector<unsigned char> o;
	for (auto &h : hdus) {
		for (auto &c : h.cards) { std::string cc = pad80(c); o.insert(o.end(), cc.begin(), cc.end()); }
		std::string e = pad80("END"); o.insert(o.end(), e.begin(), e.end());
		while (o.size() % 2880) o.push_back(' ');
		o.insert(o.end(), h.data.begin(), h.data.end());
		while (o.size() % 2880) o.push_back(0);
	}
	return o;
}
// returns false on structural damage; fills as many HDUs as could be parsed
static inline bool raw_decode(const unsigned char *p, size_t n, std::vector<RawHDU> &hdus, std::string *why = nullptr) {
	size_t pos = 0;
	while (pos < n) {
		RawHDU h; bool end = false;
		while (!end) {
			if (pos + 2880 > n) { if (why) *why = "truncated header"; return false; }
			for (int i = 0; i < 36; i++) {
				std::string c((const char *)p + pos + 80 * i, 80);
				if (!end) { if (card_key(c) == "END") end = true; else h.cards.push_back(c); }
			}
			pos += 2880;
		}
		long bitpix = 0, naxis = 0;
		if (!card_long(h, "BITPIX", bitpix) || !card_long(h, "NAXIS", naxis) || naxis < 0 || naxis > 999) { if (why) *why = "no BITPIX/NAXIS"; return false; }
		size_t cnt = naxis ? 1 : 0;
		for (long a = 1; a <= naxis; a++) { long v; if (!card_long(h, "NAXIS" + std::to_string(a), v) || v < 0) { if (why) *why = "bad NAXISn"; return false; } if (v && cnt > ((size_t)1 << 40) / (size_t)v) { if (why) *why = "truncated data"; hdus.push_back(h); return false; } cnt *= (size_t)v; }
		long pc = 0, gc = 1; card_long(h, "PCOUNT", pc); card_long(h, "GCOUNT", gc);
		if (pc < 0 || gc < 0 || pc > ((long)1 << 40) || gc > ((long)1 << 20) || std::labs(bitpix) > 64) { if (why) *why = "bad PCOUNT/GCOUNT/BITPIX"; return false; }
		size_t bytes = (size_t)(std::labs(bitpix) / 8) * (size_t)gc * ((size_t)pc + cnt); // every factor is bounded above: no wrap-around
		if (bytes > n || pos > n - bytes) { if (why) *why = "truncated data"; hdus.push_back(h); return false; }
		h.data.assign(p + pos, p + pos + bytes);
		pos += (bytes + 2879) / 2880 * 2880;
		hdus.push_back(h);
	}
	return true;
}
static inline void put_be(std::vector<unsigned char> &o, const void *v, int n) { const unsigned char *b = (const unsigned char *)v; for (int i = n - 1; i >= 0; i--) o.push_back(b[i]); }
static inline double get_be_d(const unsigned char *p) { unsigned char b[8]; for (int i = 0; i < 8; i++) b[i] = p[7 - i]; double d; memcpy(&d, b, 8); return d; }
static inline float get_be_f(const unsigned char *p) { unsigned char b[4]; for (int i = 0; i < 4; i++) b[i] = p[3 - i]; float d; memcpy(&d, b, 4); return d; }

// independent encoder in the documented layout (no cfitsio involved)
static inline std::vector<RawHDU> raw_from_spec(const Spec &s) {
	std::vector<RawHDU> hd;
	int nd = s.ndim();
	RawHDU p;
	p.cards.push_back(card_log("SIMPLE", true));
	p.cards.push_back(card_int("BITPIX", -32));
	p.cards.push_back(card_int("NAXIS", nd));
	for (int a = 1; a <= nd; a++) p.cards.push_back(card_int("NAXIS" + std::to_string(a), s.naxes(nd - a)));
	p.cards.push_back(card_log("EXTEND", true));
	p.cards.push_back(card_str("TYPE", "Spline Coefficient Table"));
	if (s.legacy_single_order) p.cards.push_back(card_int("ORDER", s.order[0]));
	else for (int d = 0; d < nd; d++) p.cards.push_back(card_int("ORDER" + std::to_string(d), s.order[d]));
	for (size_t d = 0; d < s.periods.size(); d++) p.cards.push_back(card_dbl("PERIOD" + std::to_string(d), s.periods[d]));
	for (auto &kv : s.aux) p.cards.push_back(card_str(kv.first, kv.second));
	std::vector<float> c = s.coef; c.resize(s.ncoef(), 1.f);
	for (float v : c) put_be(p.data, &v, 4);
	hd.push_back(p);
	for (int d = 0; d < nd; d++) {
		RawHDU k;
		k.cards.push_back(card_str("XTENSION", "IMAGE"));
		k.cards.push_back(card_int("BITPIX", -64));
		k.cards.push_back(card_int("NAXIS", 1));
		k.cards.push_back(card_int("NAXIS1", (long)s.knots[d].size()));
		k.cards.push_back(card_int("PCOUNT", 0));
		k.cards.push_back(card_int("GCOUNT", 1));
		k.cards.push_back(card_str("EXTNAME", "KNOTS" + std::to_string(d)));
		for (double v : s.knots[d]) put_be(k.data, &v, 8);
		hd.push_back(k);
	}
	if (s.has_extents) {
		RawHDU e;
		e.cards.push_back(card_str("XTENSION", "IMAGE"));
		e.cards.push_back(card_int("BITPIX", -64));
		e.cards.push_back(card_int("NAXIS", 1));
		e.cards.push_back(card_int("NAXIS1", 2 * nd));
		e.cards.push_back(card_int("PCOUNT", 0));
		e.cards.push_back(card_int("GCOUNT", 1));
		e.cards.push_back(card_str("EXTNAME", "EXTENTS"));
		for (double v : s.ext()) put_be(e.data, &v, 8);
		hd.push_back(e);
	}
	return hd;
}

// ---- generator -------------------------------------------------------------------------------
struct GenOpts {
	int min_dim = 1, max_dim = 9;
	int max_order = 5;
	size_t max_block = 4096;      // prod(order+1)
	size_t max_coef = 200000;     // prod(naxes)
	bool allow_repeated = true;   // interior multiplicity <= order, or clamped ends
	bool strict_increasing = false;
	double mag_exp_max = 30;      // knot magnitude 10^+-
	bool special_coef = false;    // inf/nan/denormal coefficients (serialisation only)
	int extra_knots_max = 12;
	double min_table_bias = 0.35; // probability that a dimension takes the minimum knot count
	bool known_patterns = true;
	bool custom_extents = true;   // 35% of tables carry EXTENTS that differ from the supported knot range
	bool zero_width_support = false; // some "repeated" dimensions (order >= 2) have all knots of the fully supported range coincide: that range is a single point
};
static inline std::vector<double> gen_knots(Rng &r, unsigned o, int nk, int flavor, double scale, double origin, bool strict) {
	std::vector<double> k;
	double x = origin;
	for (int i = 0; i < nk; i++) {
		k.push_back(x);
		double step;
		switch (flavor) {
		case 0: step = 1.0; break;                                   // uniform
		case 1: step = 0.01 + r.U() * r.U() * 5; break;              // irregular
		case 2: step = std::pow(10.0, r.U() * 6 - 3); break;         // spacing ratio up to 1e6
		case 3: step = 0.05 + r.U(); if (!strict && o >= 1 && i > (int)o && (i < nk - (int)o - 2 || (i == nk - (int)o - 2 && r.coin(0.4))) && r.coin(0.3)) step = 0; break; // repeated interior (may reach the top knot of full support)
		default: step = 0.2 + r.U(); break;                          // 4: clamped ends (applied below)
		}
		x += step * scale;
	}
	if (flavor == 3 && !strict && o >= 1) {
		// cap interior multiplicity at <= order
		int run = 1;
		for (int i = 1; i < nk; i++) { if (k[i] == k[i - 1]) { run++; if (run > (int)o) { for (int j = i; j < nk; j++) k[j] += 0.37 * scale; run = 1; } } else run = 1; }
	}
	if (flavor == 4 && !strict) { for (unsigned i = 0; i < o; i++) { k[i] = k[o]; k[nk - 1 - i] = k[nk - 1 - o]; } }
	return k;
}
static const char *knot_flavor_name(int f) { static const char *n[] = {"uniform", "irregular", "wide-ratio", "repeated", "clamped"}; return n[f]; }

// EXTENTS that differ from the fully supported knot range (narrower by whole intervals, or out to / beyond the outer knots)
static inline void add_custom_extents(Rng &r, Spec &s) {
	s.extents.clear();
	for (int d = 0; d < s.ndim(); d++) {
		const std::vector<double> &k = s.knots[d]; int nk = (int)k.size(); unsigned o = s.order[d];
		double lo = k[o], hi = k[nk - 1 - o];
		switch (r.below(4)) {
		case 0: { int a = (int)o + (int)r.below(std::max(1, (nk - 2 * (int)o) / 2)), b = nk - 1 - (int)o - (int)r.below(std::max(1, (nk - 2 * (int)o) / 2)); if (a < b) { lo = k[a] + 0.25 * (k[a + 1] - k[a]); hi = k[b] - 0.25 * (k[b] - k[b - 1]); } break; }
		case 1: lo = k[0]; hi = k[nk - 1]; break;
		case 2: lo = k[0] - (k[nk - 1] - k[0]); hi = k[nk - 1] + (k[nk - 1] - k[0]); break;
		default: break;
		}
		s.extents.push_back(lo); s.extents.push_back(hi);
	}
	s.flavor += "/custom-extents";
}
static inline Spec gen_spec(Rng &r, const GenOpts &g) {
	Spec s;
	for (int attempt = 0; attempt < 200; attempt++) {
		s = Spec();
		int nd = r.range(g.min_dim, g.max_dim);
		std::vector<unsigned> ord(nd);
		int pat = (int)r.below(10);
		if (g.known_patterns && pat == 0 && g.min_dim <= 6 && g.max_dim >= 6 && g.max_order >= 5) { nd = 6; ord = {2, 2, 2, (unsigned)(r.coin(0.5) ? 3 : 5), 2, 2}; }
		else if (pat <= 4) { unsigned o = (unsigned)r.below(g.max_order + 1); for (auto &v : ord) v = o; }
		else for (auto &v : ord) v = (unsigned)r.below(g.max_order + 1);
		size_t blk = 1; for (unsigned o : ord) blk *= o + 1;
		if (blk > g.max_block) continue;
		int flavor = (int)r.below(5);
		if (g.strict_increasing && (flavor == 3 || flavor == 4)) flavor = 1;
		if (!g.allow_repeated && (flavor == 3 || flavor == 4)) flavor = (int)r.below(3);
		int magcls = (int)r.below(6); // 0..3 moderate, 4 huge, 5 tiny
		double scale = 1, origin_mag = 1;
		if (magcls == 4) { scale = std::pow(10.0, r.U() * g.mag_exp_max); origin_mag = scale; }
		else if (magcls == 5) { scale = std::pow(10.0, -r.U() * g.mag_exp_max); origin_mag = scale; }
		bool allmin = r.coin(0.15);
		size_t tot = 1; bool bad = false, zws = false;
		for (int d = 0; d < nd; d++) {
			unsigned o = ord[d];
			int extra = (allmin || r.coin(g.min_table_bias)) ? 0 : (int)r.range(1, g.extra_knots_max);
			if (nd >= 7 && extra > 2) extra = (int)r.below(3);
			int nk = 2 * o + 2 + extra;
			double origin = (r.U() * 10 - 5) * origin_mag;
			if (r.coin(0.2)) origin = -std::fabs(origin) - 3 * scale * nk; // negative range
			s.order.push_back(o);
			if (g.zero_width_support && flavor == 3 && o >= 2 && r.coin(0.3)) {
				// knots[order..nknots-order-1] coincide (at most `order' of them): the fully supported range is the single point they mark, reached from the left piece
				nk = 2 * (int)o + 2 + (int)r.below(o - 1);
				std::vector<double> k = gen_knots(r, o, nk, 1, scale, origin, true);
				double v = k[o], sh = k[nk - o - 1] - v;
				for (int i = (int)o; i < nk; i++) k[i] = i <= nk - (int)o - 1 ? v : k[i] - sh;
				s.knots.push_back(k); zws = true;
			} else
			s.knots.push_back(gen_knots(r, o, nk, flavor, scale, origin, g.strict_increasing));
			tot *= (size_t)(nk - o - 1);
			if (tot > g.max_coef) { bad = true; break; }
		}
		if (bad) continue;
		s.coef.resize(tot);
		int cf = (int)r.below(8);
		const char *cfn = "normal";
		double cmag = std::pow(10.0, (double)r.range(-3, 3));
		for (size_t i = 0; i < tot; i++) {
			float c;
			switch (cf) {
			case 0: c = 1.f; cfn = "ones"; break;
			case 1: c = r.coin(0.7) ? 0.f : (float)((r.U() - 0.5) * cmag); cfn = "sparse"; break;
			case 2: c = (float)((r.U() - 0.5) * 1e30); cfn = "huge"; break;
			case 3: c = (float)((r.U() - 0.5) * 1e-30); cfn = "tiny"; break;
			case 4: c = (float)(r.U() * cmag); cfn = "positive"; break;
			case 7: c = (float)((r.U() - 0.5) * 2e-39); cfn = "subnormal"; break; // products and sums in the subnormal range of float: any path running with flush-to-zero differs
			default: c = (float)((r.U() - 0.5) * cmag); if (r.coin(0.02)) c = r.coin(0.5) ? 0.f : -0.f; break;
			}
			s.coef[i] = c;
		}
		if (g.special_coef) {
			size_t n = 1 + r.below(4);
			for (size_t j = 0; j < n; j++) {
				float sp[] = {INFINITY, -INFINITY, NAN, 1e-42f, -1e-45f, 3.4e38f, -0.f, std::numeric_limits<float>::min()};
				s.coef[r.below(tot)] = sp[r.below(8)];
			}
			cfn = "special";
		}
		s.flavor = std::string(knot_flavor_name(flavor)) + "/" + (magcls == 4 ? "hugeknots" : magcls == 5 ? "tinyknots" : "unit") + "/" + cfn + (allmin ? "/allmin" : "") + (zws ? "/zero-width-support" : "");
		if (g.custom_extents && r.coin(0.35)) add_custom_extents(r, s);
		return s;
	}
	// fall back to something tiny
	s = Spec(); s.order = {1}; s.knots = {{0, 1, 2, 3}}; s.coef = {1.f, 2.f}; s.flavor = "fallback";
	return s;
}

} // namespace vf
