// fz_read.cpp - C07, coverage-guided: libFuzzer target for the in-memory reader (clang, ASan+UBSan).
//  * the monitor is the one of h_fits C07: a failed read leaves an empty, reusable object; a successful read yields a
//    well-formed table that survives an evaluation battery and re-serialises to an equal table.
//  * a structure-aware custom mutator works on the decoded HDU list (cards / data sizes / extension order) half of the
//    time and falls back to libFuzzer's byte mutations otherwise, so coverage feedback steers both.
//  * violations print "VF-VIOLATION <key>" on a private copy of stderr and abort (libFuzzer then stores the input).
#include "vf_spec.h"
#include <photospline/splinetable.h>
#include <unistd.h>
#include <new>

using namespace vf;
typedef photospline::splinetable<> Table;

extern "C" size_t LLVMFuzzerMutate(uint8_t *Data, size_t Size, size_t MaxSize);

// A header may declare an array of hundreds of gigabytes. In the production build `new` then throws std::bad_alloc and the read fails cleanly (judged by the
// h_fits production pass); the sanitizer's own operator new would abort the process instead. Route the C++ allocation functions through malloc (still
// tracked by ASan) and refuse absurd sizes the way a real allocator does.
static void *vf_new(size_t n) { if (n > ((size_t)1 << 31)) throw std::bad_alloc(); void *p = malloc(n ? n : 1); if (!p) throw std::bad_alloc(); return p; }
void *operator new(size_t n) { return vf_new(n); }
void *operator new[](size_t n) { return vf_new(n); }
void *operator new(size_t n, const std::nothrow_t &) noexcept { return n > ((size_t)1 << 31) ? nullptr : malloc(n ? n : 1); }
void *operator new[](size_t n, const std::nothrow_t &) noexcept { return n > ((size_t)1 << 31) ? nullptr : malloc(n ? n : 1); }
void operator delete(void *p) noexcept { free(p); }
void operator delete[](void *p) noexcept { free(p); }
void operator delete(void *p, size_t) noexcept { free(p); }
void operator delete[](void *p, size_t) noexcept { free(p); }
void operator delete(void *p, const std::nothrow_t &) noexcept { free(p); }
void operator delete[](void *p, const std::nothrow_t &) noexcept { free(p); }

static FILE *g_err = nullptr;
static long n_exec = 0, n_accept = 0, n_reject = 0, n_battery = 0, n_reuse = 0, n_structured = 0, n_bytewise = 0;
static std::vector<unsigned char> g_good;
static void stats() { if (g_err) { fprintf(g_err, "VF-STAT execs=%ld accepted=%ld rejected=%ld batteries=%ld reuse-after-failure=%ld structured-mutations=%ld bytewise-mutations=%ld\n", n_exec, n_accept, n_reject, n_battery, n_reuse, n_structured, n_bytewise); fflush(g_err); } }
static void fail(const std::string &key) { if (g_err) { fprintf(g_err, "VF-VIOLATION %s\n", key.c_str()); fflush(g_err); } abort(); }

extern "C" int LLVMFuzzerInitialize(int *, char ***) {
	g_err = fdopen(dup(2), "w");
	atexit(stats);
	Spec s; s.order = {2, 1}; Rng r(7, "fz", 0);
	s.knots = {gen_knots(r, 2, 8, 1, 1.0, 0.0, true), gen_knots(r, 1, 6, 1, 1.0, 0.0, true)}; s.coef.resize(s.ncoef()); for (auto &c : s.coef) c = (float)r.U();
	Bytes b = mkfits(s); g_good.assign((unsigned char *)b.p, (unsigned char *)b.p + b.n); free(b.p);
	return 0;
}

template <class TT> static std::string wellformed(const TT &T) {
	unsigned nd = T.get_ndim(); if (nd == 0) return "ndim==0 after successful read";
	uint64_t tot = 1;
	for (unsigned d = 0; d < nd; d++) {
		uint64_t nk = T.get_nknots(d), na = T.get_ncoeffs(d); unsigned o = T.get_order(d);
		if (na != nk - o - 1 || nk < (uint64_t)o + 1) return "naxes!=nknots-order-1";
		if (na < (uint64_t)o + 1) return "naxes<order+1";
		const double *k = T.get_knots(d);
		for (uint64_t i = 0; i < nk; i++) { if (!std::isfinite(k[i])) return "non-finite-knot"; if (i && k[i] < k[i - 1]) return "decreasing-knots"; }
		tot *= na;
	}
	if (T.get_ncoeffs() != tot) return "ncoeffs!=prod(naxes)";
	uint64_t st = 1; for (int d = (int)nd - 1; d >= 0; d--) { if (T.get_stride(d) != st) return "strides-inconsistent"; st *= T.get_ncoeffs(d); }
	return "";
}
static bool same_table(const Table &a, const Table &b) {
	if (a.get_ndim() != b.get_ndim()) return false;
	for (unsigned d = 0; d < a.get_ndim(); d++) {
		if (a.get_order(d) != b.get_order(d) || a.get_nknots(d) != b.get_nknots(d) || a.get_ncoeffs(d) != b.get_ncoeffs(d)) return false;
		if (memcmp(a.get_knots(d), b.get_knots(d), 8 * a.get_nknots(d))) return false;
		if (memcmp(&(const double &)a.lower_extent(d), &(const double &)b.lower_extent(d), 0)) return false;
	}
	if (a.get_ncoeffs() != b.get_ncoeffs()) return false;
	const float *ca = a.get_coefficients(), *cb = b.get_coefficients();
	for (uint64_t i = 0; i < a.get_ncoeffs(); i++) if (memcmp(ca + i, cb + i, 4) && !(std::isnan(ca[i]) && std::isnan(cb[i]))) return false;
	return true;
}
static void battery(const Table &T, Rng &r) {
	unsigned nd = T.get_ndim(); std::vector<double> x(nd); std::vector<int> c(nd); std::vector<double> g(nd + 1);
	auto Ef = T.get_evaluator<float>(); auto Ed = T.get_evaluator<double>(); volatile double sink = 0;
	for (int p = 0; p < 6; p++) {
		for (unsigned d = 0; d < nd; d++) {
			const double *k = T.get_knots(d); uint64_t nk = T.get_nknots(d); unsigned o = T.get_order(d);
			switch (r.below(6)) {
			case 0: x[d] = k[r.below(nk)]; break;
			case 1: x[d] = std::nextafter(k[r.below(nk)], INFINITY); break;
			case 2: x[d] = k[nk - 1]; break;
			case 3: x[d] = k[0] + (k[std::min<uint64_t>(o, nk - 1)] - k[0]) * r.U(); break;
			default: x[d] = k[0] + (k[nk - 1] - k[0]) * r.U(); break;
			}
		}
		bool ok = T.searchcenters(x.data(), c.data()); sink = T(x.data()); sink = Ef(x.data(), 0);
		if (!ok) continue;
		int mask = (int)r.below(1u << std::min(nd, 20u));
		sink = T.ndsplineeval<float>(x.data(), c.data(), 0); sink = T.ndsplineeval<double>(x.data(), c.data(), mask); sink = Ef.ndsplineeval(x.data(), c.data(), mask); sink = Ed.ndsplineeval(x.data(), c.data(), 0);
		try { T.ndsplineeval_gradient<float>(x.data(), c.data(), g.data()); Ed.ndsplineeval_gradient(x.data(), c.data(), g.data()); } catch (std::exception &) {}
		std::vector<unsigned> de(nd); for (auto &q : de) q = (unsigned)r.below(3);
		sink = T.ndsplineeval_deriv(x.data(), c.data(), de.data());
	}
	(void)sink;
}

extern "C" int LLVMFuzzerTestOneInput(const uint8_t *data, size_t size) {
	n_exec++;
	unsigned char *buf = (unsigned char *)malloc(size ? size : 1); memcpy(buf, data, size); // exact-size heap copy: over-reads hit a red zone
	{
		Table T; bool ok = true;
		try { T.read_fits_mem(buf, size); } catch (std::exception &) { ok = false; }
		if (!ok) {
			n_reject++;
			if (T.get_ndim() != 0 || T.get_naux_values() != 0) fail("C07:fuzz:read_fits_mem:failed-read-left-object-non-empty");
			// the object must be reusable
			std::vector<unsigned char> gcopy = g_good; bool ok2 = true; try { T.read_fits_mem(gcopy.data(), gcopy.size()); } catch (std::exception &) { ok2 = false; }
			if (!ok2 || T.get_ndim() != 2) fail("C07:fuzz:read_fits_mem:object-not-reusable-after-failed-read");
			n_reuse++;
		} else {
			n_accept++;
			std::string wf = wellformed(T); if (!wf.empty()) fail("C07:fuzz:read_fits_mem:accepted-malformed:" + wf);
			if (T.get_ncoeffs() <= 200000 && T.get_ndim() <= 9) {
				uint64_t h = 1469598103934665603ull; for (size_t i = 0; i < size; i += 97) h = (h ^ data[i]) * 1099511628211ull;
				Rng r(h, "fzb", 0); battery(T, r); n_battery++;
				std::pair<void *, size_t> w(nullptr, 0); bool wok = true;
				try { w = T.write_fits_mem(); } catch (std::exception &) { wok = false; }
				if (wok) { Table R; bool rok = true; try { R.read_fits_mem(w.first, w.second); } catch (std::exception &) { rok = false; } free(w.first);
					if (!rok) fail("C07:fuzz:read_fits_mem:re-serialised-table-not-readable"); if (!same_table(T, R)) fail("C07:fuzz:read_fits_mem:re-serialised-table-differs"); }
			}
		}
	}
	free(buf);
	return 0;
}

// ---------------------------------------------------------------- structure-aware mutator
static void put_be32(std::vector<unsigned char> &d, size_t off, uint32_t v) { if (off + 4 <= d.size()) { d[off] = v >> 24; d[off + 1] = v >> 16; d[off + 2] = v >> 8; d[off + 3] = v; } }
extern "C" size_t LLVMFuzzerCustomMutator(uint8_t *Data, size_t Size, size_t MaxSize, unsigned int Seed) {
	Rng r(Seed, "fzm", 1);
	std::vector<RawHDU> h;
	std::string why; bool wantst = r.coin(0.5); bool dec = wantst && raw_decode(Data, Size, h, &why);
	if (getenv("VF_FZ_DEBUG") && g_err) fprintf(g_err, "mutator: size=%zu max=%zu structured=%d decoded=%d hdus=%zu why=%s\n", Size, MaxSize, (int)wantst, (int)dec, h.size(), why.c_str());
	if (dec && !h.empty()) {
		n_structured++;
		int nmut = 1 + (int)r.below(3);
		for (int m = 0; m < nmut; m++) {
			size_t hi = r.below(h.size()); RawHDU &H = h[hi];
			switch (r.below(12)) {
			case 0: case 1: case 2: { // change an integer-valued card (NAXISn, ORDERn, BITPIX, NAXIS, PCOUNT, GCOUNT)
				if (H.cards.empty()) break; size_t ci = r.below(H.cards.size()); std::string k = card_key(H.cards[ci]); long v;
				if (!card_long(H, k, v)) break;
				static const long deltas[] = {-1, 1, -2, 2, 0};
				unsigned long uv = (unsigned long)v; long nv; // (wrap-around arithmetic: v may already be LONG_MAX)
				switch (r.below(6)) { case 0: nv = 0; break; case 1: nv = (long)(0ul - uv); break; case 2: nv = (long)(uv * 2ul); break; case 3: nv = r.coin(0.5) ? 2147483647L : 4294967296L + (long)(uv & 0xff); break; default: nv = (long)(uv + (unsigned long)deltas[r.below(4)]); break; }
				H.cards[ci] = card_int(k, nv); break; }
			case 3: { // resize the data unit without touching the header
				size_t n = H.data.size(); size_t nn = r.coin(0.5) ? n + (r.coin(0.5) ? 4 : 2880) : (n > 8 ? n - (r.coin(0.5) ? 4 : std::min<size_t>(n, 8 * (1 + r.below(4)))) : 0); H.data.resize(nn, 0); break; }
			case 4: { // resize the data unit consistently along axis 1
				long n1; if (!card_long(H, "NAXIS1", n1) || n1 <= 0) break; long bp; if (!card_long(H, "BITPIX", bp)) break; size_t el = (size_t)(std::abs(bp) / 8); if (!el) break;
				if (n1 > (1L << 40)) break; size_t rows = H.data.size() / ((size_t)n1 * el); long nn = std::max<long>(0, n1 + (r.coin(0.5) ? 1 : -1)); if (rows > (1u << 20)) break; H.cards[0] = H.cards[0]; set_card(H, "NAXIS1", card_int("NAXIS1", nn)); H.data.resize(rows * (size_t)nn * el, 0); break; }
			case 5: if (h.size() > 1) { size_t a = r.below(h.size()), b = r.below(h.size()); if (a && b) std::swap(h[a], h[b]); } break; // reorder extensions
			case 6: if (h.size() > 1 && hi > 0) h.erase(h.begin() + hi); break;                                                       // drop an extension
			case 7: if (h.size() < 12 && hi > 0) h.insert(h.begin() + hi, h[hi]); break;                                                // duplicate an extension
			case 8: { // corrupt a double in a knot/extent extension: NaN, inf, unsorted
				if (hi == 0 || H.data.size() < 16) break; size_t i = r.below(H.data.size() / 8); static const uint32_t hiw[] = {0x7ff80000u, 0x7ff00000u, 0xfff00000u, 0xc0000000u, 0x00000000u};
				put_be32(H.data, 8 * i, hiw[r.below(5)]); break; }
			case 9: { // delete or duplicate a card
				if (H.cards.size() < 2) break; size_t ci = r.below(H.cards.size()); if (r.coin(0.5)) H.cards.erase(H.cards.begin() + ci); else H.cards.insert(H.cards.begin() + ci, H.cards[r.below(H.cards.size())]); break; }
			case 10: { // rename an extension / change a string card
				if (hi == 0) break; static const char *names[] = {"KNOTS0", "KNOTS1", "KNOTS9", "EXTENTS", "KNOTS", "", "KNOTS00", "knots0"}; set_card(H, "EXTNAME", card_str("EXTNAME", names[r.below(8)])); break; }
			default: { // byte-level mutation inside one card or the data of this HDU
				if (!H.cards.empty() && r.coin(0.5)) { std::string &c = H.cards[r.below(H.cards.size())]; c[r.below(c.size())] = (char)(32 + r.below(95)); }
				else if (!H.data.empty()) H.data[r.below(H.data.size())] ^= (unsigned char)(1u << r.below(8));
				break; }
			}
		}
		std::vector<unsigned char> out = raw_encode(h);
		if (!out.empty() && out.size() <= MaxSize) { memcpy(Data, out.data(), out.size()); return out.size(); }
	}
	n_bytewise++;
	return LLVMFuzzerMutate(Data, Size, MaxSize);
}
