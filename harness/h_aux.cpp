// h_aux.cpp - C16: auxiliary keys as an insertion-ordered string map that survives serialisation.
// Random histories of write/overwrite/remove/lookup/typed reads (C++ and C interface) interleaved with FITS round trips
// are replayed against a 20-line model; LeakSanitizer runs per history.
#include <climits>
#include <cerrno>
#include "vf_spec.h"
#include <photospline/cinter/splinetable.h>

using namespace vf;
typedef photospline::splinetable<> Table;
static std::string g_tmp;

static std::string rtrim(std::string s) { while (!s.empty() && s.back() == ' ') s.pop_back(); return s; }
struct Model { std::vector<std::pair<std::string, std::string>> kv; int find(const std::string &k) const { for (size_t i = 0; i < kv.size(); i++) if (kv[i].first == k) return (int)i; return -1; } };

// keys the property says must be rejected
static bool must_reject_key(const std::string &k) {
	static const char *reserved[] = {"BITPIX", "SIMPLE", "TYPE", "ORDER", "NAXIS", "PERIOD", "EXTEND", "COMMENT"};
	for (const char *p : reserved) if (k.compare(0, strlen(p), p) == 0) return true;
	if (k.size() <= 8) { for (char c : k) if (!(std::isupper((unsigned char)c) || std::isdigit((unsigned char)c) || c == '-' || c == '_')) return true; }
	else { for (char c : k) if (c == '=' || std::islower((unsigned char)c)) return true; }
	return false;
}
static size_t max_value_len(const std::string &k) { return k.size() <= 8 ? 68 : k.size() >= 67 ? 0 : 67 - k.size(); } // (no value at all fits behind a key of 67 or more characters)

static const char *KEYS[] = {"A", "KEY1", "ABCDEFGH", "X_Y", "A-B", "LONGERKEYNAME", "HIERARCH_STYLE_KEY_01", "A_VERY_VERY_LONG_KEY_NAME_FOR_HIERARCH_USE", "BITPIX", "NAXIS1", "ORDER0", "TYPE", "PERIOD2", "EXTEND", "COMMENT", "SIMPLE",
                             "lower", "Mixed", "SP ACE", "PUNCT.KEY", "K=V", "longerlowercasekey", "LONG=KEYWITHEQUALS", "", "END", "HISTORY", "CONTINUE", "BSCALE", "BZERO", "BLANK", "EXTNAME", "DATE", "CHECKSUM", "GEOM", "Z9",
                             // keys that interact with the HIERARCH convention, blanks and punctuation inside long keys, the 8/9 character boundary
                             "HIERARCH", "HIERARCH FOO", "HIERARCH LONGER KEY NAME", "HIERARCHX", " LEADING BLANK KEY", "TRAILING BLANK KEY ", "DOUBLE  BLANK KEY", "ICE MODEL VERSION", "DOTTED.LONG.KEY.NAME",
                             "ABCDEFGHI", "A1234567", "LONG-KEY_WITH-PUNCT", "KEY WITH 'QUOTE'", "TAB\tIN LONG KEY", "LONGKEY/WITH/SLASH", "LONG KEY WITH & AMP", "NON-ASCII-\xc3\xa9-LONGKEY", "SHORT\xe9",
                             // keywords by which cfitsio identifies or checks an HDU, and keys so long that no value fits behind them
                             "HDUNAME", "EXTVER", "HDUVER", "EXTLEVEL", "HDULEVEL", "INHERIT", "DATASUM", "ZIMAGE", "LONGSTRN", "TFIELDS",
                             "A_KEY_OF_EXACTLY_SIXTY_FIVE_CHARACTERS_WHICH_LEAVES_TWO_FOR_VALUE", "A_KEY_OF_EXACTLY_SIXTY_SIX_CHARACTERS_WHICH_LEAVES_ONE_FOR_A_VALUE_",
                             "A_KEY_OF_EXACTLY_SIXTY_SEVEN_CHARACTERS_WHICH_LEAVES_NONE_FOR_VALUE", "A_KEY_OF_SEVENTY_TWO_CHARACTERS_WHICH_IS_LONGER_THAN_ANY_VALUE_FIELD_CAN_BE", "A_KEY_WHICH_IS_VERY_MUCH_LONGER_THAN_A_WHOLE_EIGHTY_CHARACTER_HEADER_CARD_COULD_EVER_HOLD_IN_ITS_ENTIRETY"};
static const int NKEYS = sizeof(KEYS) / sizeof(KEYS[0]);

static std::string gen_strvalue(Rng &r, const std::string &key) {
	size_t mx = max_value_len(key.size() ? key : "A");
	if (mx < 3) return r.coin(0.5) ? std::string() : std::string(1 + r.below(3), 'x');
	if (key == "HDUNAME" || key == "EXTVER" || key == "HDUVER") { static const char *nm[] = {"EXTENTS", "KNOTS0", "KNOTS1", "extents", "1", "2", "PRIMARY"}; return nm[r.below(7)]; }
	switch (r.below(24)) {
	case 14: { std::string v(mx, 'q'); v[r.below(mx)] = '\''; return v; }                                  // maximal length with one quote (doubles in the card)
	case 15: { size_t q = 1 + r.below(4); if (mx < 2 * q + 1) return "'"; std::string v(mx - q, 'f'); for (size_t i = 0; i < q; i++) v[2 * i] = '\''; return v; } // fits exactly once its quotes are doubled
	case 16: return std::string(mx / 2 + r.below(2), '\'');                                                // nothing but quotes: exactly fitting / one too many
	case 17: { std::string v(mx, 'b'); v[0] = ' '; v[1] = ' '; return v; }                                  // maximal length with leading blanks
	case 18: return std::string(1 + r.below(5), ' ');                                                        // blanks only
	case 19: return r.coin(0.5) ? "tab\there" : "line\nbreak";                                               // control characters
	case 20: return "caf\xc3\xa9";                                                                           // non-ASCII
	case 21: { std::string v(mx, 'e'); v[mx - 1] = '&'; return v; }                                         // maximal length ending in the continuation marker
	case 22: return "'";
	case 23: return std::string(150 + r.below(100), 'L');                                                    // far too long
	case 0: return "";
	case 1: return std::string(mx, 'm');                      // maximal length
	case 2: return std::string(mx + 1, 'n');                  // one too long
	case 3: return "  leading blanks";
	case 4: return "it's";                                    // embedded quote
	case 5: return "''";
	case 6: return "'quoted'";
	case 7: return "a&b";
	case 8: return "ends with amp&";
	case 9: return "007";
	case 10: return "3 / 4 slash";
	case 11: return std::string(1 + r.below(mx > 2 ? mx - 1 : 1), 'a' + (char)r.below(26));
	case 12: return "trailing blanks   ";
	default: return "v" + std::to_string(r.below(100000));
	}
}

static void compare(Table &T, const Model &M, const std::string &hist, const char *where) {
	std::string hj = "{\"where\":" + jstr(where) + ",\"history\":" + jstr(hist.size() > 1500 ? hist.substr(hist.size() - 1500) : hist) + "}";
	if (T.get_naux_values() != M.kv.size()) { viol("C16:store:entry-count-differs-from-model", "{\"table\":" + std::to_string(T.get_naux_values()) + ",\"model\":" + std::to_string(M.kv.size()) + ",\"h\":" + hj + "}"); return; }
	for (size_t i = 0; i < M.kv.size(); i++) {
		const char *k = T.get_aux_key(i);
		if (!k || M.kv[i].first != k) { viol("C16:store:insertion-order-or-key-differs-from-model", "{\"index\":" + std::to_string(i) + ",\"table_key\":" + jstr(k ? k : "<null>") + ",\"model_key\":" + jstr(M.kv[i].first) + ",\"h\":" + hj + "}"); return; }
		const char *v = T.get_aux_value(k);
		if (!v || rtrim(v) != rtrim(M.kv[i].second)) { viol("C16:lookup:value-differs-from-model", "{\"key\":" + jstr(k) + ",\"table_value\":" + jstr(v ? v : "<null>") + ",\"model_value\":" + jstr(M.kv[i].second) + ",\"h\":" + hj + "}"); return; }
	}
}

static void run_C16(const Args &a, long cs) {
	Rng r(a.seed, "C16", cs);
	Spec s; s.order = {1, 0}; s.knots = {{0, 1, 2, 3, 4}, {0, 1, 2}}; s.coef = {1, 2, 3, 4, 5, 6}; if (r.coin(0.3)) s.aux.push_back({"PRESET", "41"});
	s.extents = {1.25, 2.75, 0.5, 1.5}; // not the defaults derived from the knots: an aux key that makes the reader pick up the wrong extension shows here
	Table *T = new Table(); if (!load(*T, s)) { viol("C16:load:well-formed-table-rejected", "{}"); delete T; return; }
	Model M; M.kv = s.aux;
	int nops = 5 + (int)r.below(a.tier == "thorough" ? 36 : 30);
	std::string hist; count("histories");
	uint64_t h = 16;
	for (int op = 0; op < nops; op++) {
		int kind = (int)r.below(13);
		std::string key = KEYS[r.below(NKEYS)];
		if (!M.kv.empty() && r.coin(0.35)) key = M.kv[r.below(M.kv.size())].first; // revisit present keys (overwrite / remove / read)
		// ... or name a present key in another spelling (lower case, or only the first letter kept): keys are compared exactly, so that key is absent
		// (lookups, typed reads and removals must say so and leave the stored key alone) and as a key to write it is in the must-reject class
		if (!M.kv.empty() && r.coin(0.08)) { std::string k0 = M.kv[r.below(M.kv.size())].first, k1 = k0; bool all = r.coin(0.6); for (size_t i = all ? 0 : 1; i < k1.size(); i++) k1[i] = (char)std::tolower((unsigned char)k1[i]); if (k1 != k0 && M.find(k1) < 0) { key = k1; count("keys-spelled-in-another-case-than-a-present-key"); } }
		h = hash_mix(h, hash_str(key) + kind);
		switch (kind) {
		case 0: case 1: case 2: case 3: case 4: { // write_key<int|double|string> (C++), or via C
			int vt = (int)r.below(3); std::string sval; bool viaC = kind == 4 && vt != 2;
			int iv = (int)r.below(2000001) - 1000000; if (r.coin(0.1)) iv = r.coin(0.5) ? 2147483647 : -2147483647 - 1; double dv = (r.U() - 0.5) * std::pow(10.0, (double)r.range(-30, 30)); if (r.coin(0.1)) dv = (double)(long)(dv); if (r.coin(0.06)) { static const double nf[] = {INFINITY, -INFINITY, NAN}; dv = nf[r.below(3)]; }
			if (vt == 0) sval = std::to_string(iv); else if (vt == 1) { std::ostringstream ss; ss << dv; sval = ss.str(); } else sval = gen_strvalue(r, key);
			Model before = M; bool threw = false; std::string what;
			phase_log(viaC ? "C:splinetable_write_key" : "write_key");
			hist += std::string(viaC ? "Cwrite(" : "write(") + key + "," + sval.substr(0, 20) + (sval.size() > 20 ? "..." : "") + ");";
			try {
				if (viaC) { splinetable hnd; hnd.data = T; int rc = vt == 0 ? splinetable_write_key(&hnd, SPLINETABLE_INT, key.c_str(), &iv) : splinetable_write_key(&hnd, SPLINETABLE_DOUBLE, key.c_str(), &dv); threw = rc != 0; }
				else if (vt == 0) T->write_key(key.c_str(), iv); else if (vt == 1) T->write_key(key.c_str(), dv); else T->write_key(key.c_str(), sval);
			} catch (std::exception &e) { threw = true; what = e.what(); }
			count("ops:write"); if (threw) count("writes-rejected"); else count("writes-accepted");
			bool reject = must_reject_key(key) || sval.size() > max_value_len(key);
			if (reject && !threw) { viol(std::string("C16:write_key:must-reject-input-accepted:") + (sval.size() > max_value_len(key) && !must_reject_key(key) ? "over-long-value" : "key-class"), "{\"key\":" + jstr(key) + ",\"value_length\":" + std::to_string(sval.size()) + ",\"history\":" + jstr(hist.substr(hist.size() > 600 ? hist.size() - 600 : 0)) + "}"); }
			if (!threw) { int i = M.find(key); if (i >= 0) M.kv[i].second = sval; else M.kv.push_back({key, sval}); }
			compare(*T, threw ? before : M, hist, threw ? "after rejected write (store must be unchanged)" : "after accepted write");
			break; }
		case 5: { // remove_key
			int i = M.find(key); bool res = false; phase_log("remove_key"); hist += "remove(" + key + ");";
			try { res = T->remove_key(key.c_str()); } catch (std::exception &e) { viol("C16:remove_key:threw", "{\"what\":" + jstr(e.what()) + "}"); }
			count("ops:remove");
			if (res != (i >= 0)) viol("C16:remove_key:return-value-differs-from-model", "{\"key\":" + jstr(key) + ",\"returned\":" + (res ? "true" : "false") + ",\"history\":" + jstr(hist.substr(hist.size() > 600 ? hist.size() - 600 : 0)) + "}");
			if (i >= 0) M.kv.erase(M.kv.begin() + i);
			compare(*T, M, hist, "after remove_key");
			break; }
		case 6: case 7: { // typed reads
			int i = M.find(key); phase_log("read_key"); count("ops:read");
			int iv = -777; double dv = -777.5; std::string sv = "<unset>";
			bool bi = T->read_key(key.c_str(), iv), bd = T->read_key(key.c_str(), dv), bs = T->read_key(key.c_str(), sv);
			splinetable hnd; hnd.data = T; int civ = -777; double cdv = -777.5; int rci = splinetable_read_key(&hnd, SPLINETABLE_INT, key.c_str(), &civ), rcd = splinetable_read_key(&hnd, SPLINETABLE_DOUBLE, key.c_str(), &cdv); const char *cg = splinetable_get_key(&hnd, key.c_str());
			std::string kj = "{\"key\":" + jstr(key) + ",\"model_value\":" + jstr(i >= 0 ? M.kv[i].second : "<absent>") + ",\"history\":" + jstr(hist.substr(hist.size() > 600 ? hist.size() - 600 : 0)) + "}";
			if (i < 0) { if (bi || bd || bs || cg || rci == 0 || rcd == 0) viol("C16:read_key:reports-presence-of-an-absent-key", kj); break; }
			const std::string &mv = M.kv[i].second;
			if (!bs || rtrim(sv) != rtrim(mv)) viol("C16:read_key<string>:differs-from-stored-string", kj);
			if (!cg || rtrim(cg) != rtrim(mv)) viol("C16:C:splinetable_get_key:differs-from-stored-string", kj);
			// the value denoted by the stored string, parsed the way the stream extraction defines it
			// the value denoted by the stored string, defined independently of stream extraction: the whole string (FITS padding aside) must be a literal of the
			// requested type. An integer read of "3e+06" or "12 monkeys" may fail, but may not succeed with 3 or 12.
			std::string tv = rtrim(mv); { size_t q = 0; while (q < tv.size() && tv[q] == ' ') q++; tv = tv.substr(q); }
			{ char *e = nullptr; errno = 0; long want = strtol(tv.c_str(), &e, 10); bool lit = !tv.empty() && e == tv.c_str() + tv.size() && errno == 0 && want >= INT_MIN && want <= INT_MAX && !isspace((unsigned char)tv[0]);
			  if (bi && (!lit || iv != (int)want)) viol("C16:read_key<int>:succeeds-with-a-value-the-stored-string-does-not-denote", kj); if (lit && !bi) viol("C16:read_key<int>:fails-on-an-integer-literal", kj);
			  if ((rci == 0) != bi || (bi && civ != iv)) viol("C16:C:splinetable_read_key(int):differs-from-C++", kj); count(lit ? "typed-reads:int-literal" : "typed-reads:int-of-non-integer"); }
			{ char *e = nullptr; double want = strtod(tv.c_str(), &e); bool lit = !tv.empty() && e == tv.c_str() + tv.size();
			  if (bd && (!lit || !(dv == want || (std::isnan(dv) && std::isnan(want))))) viol("C16:read_key<double>:succeeds-with-a-value-the-stored-string-does-not-denote", kj); if (lit && !bd) viol(std::string("C16:read_key<double>:fails-on-a-number:") + (std::isfinite(want) ? "finite" : "non-finite"), kj);
			  if ((rcd == 0) != bd || (bd && !(cdv == dv || (std::isnan(cdv) && std::isnan(dv))))) viol("C16:C:splinetable_read_key(double):differs-from-C++", kj); }
			break; }
		case 8: { // lookups of everything
			compare(*T, M, hist, "periodic full comparison"); count("ops:scan"); break; }
		default: { // FITS round trip; the object is replaced by what was read
			bool disk = r.coin(0.4); std::string path = g_tmp + "/aux." + std::to_string(getpid()) + ".fits"; hist += disk ? "roundtrip(disk);" : "roundtrip(mem);";
			phase_log("round trip"); count("ops:roundtrip");
			Table *R = new Table(); bool ok = true; std::string what;
			try { if (disk) { T->write_fits(path); R->read_fits(path); } else { auto w = T->write_fits_mem(); std::vector<unsigned char> cp((unsigned char *)w.first, (unsigned char *)w.first + w.second); free(w.first); R->read_fits_mem(cp.data(), cp.size()); } }
			catch (std::exception &e) { ok = false; what = e.what(); }
			unlink(path.c_str());
			if (!ok) { viol("C16:roundtrip:accepted-store-cannot-be-serialised-or-read-back", "{\"what\":" + jstr(what) + ",\"history\":" + jstr(hist.substr(hist.size() > 900 ? hist.size() - 900 : 0)) + "}"); delete R; break; }
			// every accepted entry must come back (as a set: same keys in the same order, values modulo trailing blanks)
			compare(*R, M, hist, "after FITS round trip (every accepted entry must survive)");
			for (unsigned d = 0; d < T->get_ndim() && d < R->get_ndim(); d++) if (!biteq(R->lower_extent(d), T->lower_extent(d)) || !biteq(R->upper_extent(d), T->upper_extent(d))) { viol("C16:roundtrip:extents-changed", "{\"dim\":" + std::to_string(d) + ",\"before\":[" + jnum(T->lower_extent(d)) + "," + jnum(T->upper_extent(d)) + "],\"after\":[" + jnum(R->lower_extent(d)) + "," + jnum(R->upper_extent(d)) + "],\"history\":" + jstr(hist.substr(hist.size() > 600 ? hist.size() - 600 : 0)) + "}"); break; }
			if (!(*R == *T)) viol("C16:roundtrip:table-data-changed", "{\"history\":" + jstr(hist.substr(hist.size() > 600 ? hist.size() - 600 : 0)) + "}");
			// the model continues with what the file holds (padding is allowed to appear)
			if (R->get_naux_values() == M.kv.size()) for (size_t i = 0; i < M.kv.size(); i++) { const char *v = R->get_aux_value(M.kv[i].first.c_str()); if (v && rtrim(v) == rtrim(M.kv[i].second)) M.kv[i].second = v; }
			else { M.kv.clear(); for (size_t i = 0; i < R->get_naux_values(); i++) M.kv.push_back({R->get_aux_key(i), R->get_aux_value(R->get_aux_key(i))}); }
			delete T; T = R; break; }
		}
		if (out().nviol > 3) break;
	}
	distinct(h);
	delete T;
	std::string lk = leak_check(g_tmp);
	if (!lk.empty()) { viol("C16:leak:" + lk, "{\"history\":" + jstr(hist.substr(0, 1200)) + "}"); finish_early_and_exit(); }
	if (cs % 40 == 0) sample("{\"history\":" + jstr(hist.substr(0, 700)) + ",\"final_entries\":" + std::to_string(M.kv.size()) + "}");
}

int main(int argc, char **argv) {
	Args a = parse_args(argc, argv);
	open_out(a.outpath);
	g_tmp = a.tmpdir;
	for (long cs = a.from; cs < a.to; cs++) { begin_case(cs); run_C16(a, cs); }
	finish();
	fflush(stdout);
	_exit(0);
}
