// h_cinter.cpp - C18: the C interface as a faithful, leak-free wrapper.
// Random call sequences over 1..3 handles, each shadowed by a C++ twin receiving the corresponding operation; after every call
// the return code must be 0 iff the twin did not throw and every returned number/string/array must be bit-equal; no exception may
// escape; at the end all handles are freed and LeakSanitizer must be silent.
#include "vf_spec.h"
#include <functional>
#include <photospline/cinter/splinetable.h>

using namespace vf;
typedef photospline::splinetable<> Table;
using photospline::detail::array_view;
static std::string g_tmp;

struct H { splinetable c; Table *twin; bool live; };

static Spec small_spec(Rng &r, int nd_fixed = 0) {
	Spec s; int nd = nd_fixed ? nd_fixed : r.range(1, 3); size_t tot = 1;
	int constorder = r.coin(0.4) ? r.range(2, 3) : -1; // all-2 / all-3 tables are served by a constant-order routine: a convolution or permutation of such a handle changes which routine applies
	for (int d = 0; d < nd; d++) { unsigned o = constorder >= 0 ? (unsigned)constorder : (unsigned)r.below(4); int nk = 2 * o + 2 + (int)r.below(4); s.order.push_back(o); s.knots.push_back(gen_knots(r, o, nk, 1, 1.0, r.U() * 2, true)); tot *= (size_t)(nk - o - 1); }
	s.coef.resize(tot); for (auto &c : s.coef) c = (float)(r.U() - 0.5);
	if (r.coin(0.5)) s.aux.push_back({"NUM", std::to_string(r.below(1000))}); if (r.coin(0.3)) s.aux.push_back({"TXT", "hello"});
	return s;
}
static bool same_table(const Table &a, const Table &b) {
	if (a.get_ndim() != b.get_ndim()) return false; if (a.get_ndim() == 0) return a.get_naux_values() == b.get_naux_values();
	if (!(a == b)) { bool nan = false; for (uint64_t i = 0; i < a.get_ncoeffs(); i++) if (std::isnan(a.get_coefficients()[i])) nan = true; if (!nan) return false; }
	for (unsigned d = 0; d < a.get_ndim(); d++) if (!biteq(a.lower_extent(d), b.lower_extent(d)) || !biteq(a.upper_extent(d), b.upper_extent(d)) || !biteq(a.get_period(d), b.get_period(d)) || a.get_stride(d) != b.get_stride(d)) return false;
	if (a.get_naux_values() != b.get_naux_values()) return false;
	for (size_t i = 0; i < a.get_naux_values(); i++) if (strcmp(a.get_aux_key(i), b.get_aux_key(i)) || strcmp(a.get_aux_value(a.get_aux_key(i)), b.get_aux_value(b.get_aux_key(i)))) return false;
	return true;
}

static void run_C18(const Args &a, long cs) {
	Rng r(a.seed, "C18", cs);
	int nh = r.range(1, 3); std::vector<H> hs(nh);
	for (auto &h : hs) { h.c.data = nullptr; h.twin = nullptr; h.live = false; }
	int nops = 6 + (int)r.below(25);
	std::string hist; uint64_t hh = 18; count("sequences");
	std::string goodpath = g_tmp + "/good." + std::to_string(getpid()) + ".fits", badpath = g_tmp + "/bad." + std::to_string(getpid()) + ".fits", outpath = g_tmp + "/out." + std::to_string(getpid()) + ".fits", outpath2 = g_tmp + "/out2." + std::to_string(getpid()) + ".fits";
	{ Spec g = small_spec(r); Bytes b = mkfits(g); FILE *f = fopen(goodpath.c_str(), "wb"); fwrite(b.p, 1, b.n, f); fclose(f); f = fopen(badpath.c_str(), "wb"); fwrite(b.p, 1, b.n / 2 + 7, f); fclose(f); free(b.p); }
	auto fail = [&](const std::string &key, const std::string &extra) { viol("C18:" + key, "{\"history\":" + jstr(hist.substr(hist.size() > 900 ? hist.size() - 900 : 0)) + ",\"info\":" + jstr(extra) + "}"); };
	for (int op = 0; op < nops && out().nviol < 3; op++) {
		H &h = hs[r.below(nh)];
		int kind = (int)r.below(22);
		hh = hash_mix(hh, (uint64_t)kind * 7 + (&h - &hs[0]));
		// one evaluation through the C entry points right before and right after every call on this handle (value compared with the twin, bit for bit): whatever the
		// wrappers keep between calls has then seen the table as it was before the call
		Rng rm(a.seed * 31 + 7, "C18mini", (uint64_t)cs * 64 + (uint64_t)op);
		auto mini_eval = [&](const char *when) { if (!h.live || !h.twin || !h.c.data) return; Table &MT = *h.twin; unsigned n0 = MT.get_ndim(); if (!n0 || splinetable_ndim(&h.c) != n0) return; std::vector<double> mx(n0); std::vector<int> mc(n0);
			for (unsigned d = 0; d < n0; d++) { const double *k = MT.get_knots(d); mx[d] = k[0] + (k[MT.get_nknots(d) - 1] - k[0]) * rm.U(); } if (!MT.searchcenters(mx.data(), mc.data())) return; bool fin = true; for (uint64_t i = 0; i < MT.get_ncoeffs() && fin; i++) if (!std::isfinite(MT.get_coefficients()[i])) fin = false; if (!fin) return;
			count("calls:evaluation-around-other-calls"); if (!biteq(MT.ndsplineeval(mx.data(), mc.data(), 0), ::ndsplineeval(&h.c, mx.data(), mc.data(), 0))) fail(std::string("ndsplineeval:differs-from-C++:") + when + "-another-call-on-the-handle", ""); };
		struct Post { std::function<void()> f; ~Post() { f(); } } post_{[&]() { if (out().nviol < 3) mini_eval("right-after"); }};
		mini_eval("right-before");
		bool threw = false; int rc = -99;
		auto expect = [&](const char *name) { count(std::string("calls:") + name); if ((rc == 0) != !threw) fail(std::string(name) + ":return-code-differs-from-C++-outcome", std::string("rc=") + std::to_string(rc) + " twin_threw=" + (threw ? "1" : "0")); };
		try {
			if (!h.live) { // only init (or calls that must fail cleanly on a handle without data) are possible
				if (kind % 4 == 0 && h.c.data == nullptr) { // NULL-data handle: guarded wrappers must return failure
					phase_log("guarded calls on handle without data"); hist += "nulldata-calls;";
					int v; if (splinetable_read_key(&h.c, SPLINETABLE_INT, "NUM", &v) == 0 || splinetable_write_key(&h.c, SPLINETABLE_INT, "NUM", &v) == 0 || splinetable_get_key(&h.c, "NUM") != nullptr) fail("guarded-wrapper:succeeded-on-handle-without-data", "key access");
					if (writesplinefitstable(outpath.c_str(), &h.c) == 0) fail("writesplinefitstable:succeeded-on-handle-without-data", "");
					splinetable_buffer wb; wb.data = nullptr; wb.size = 0; if (writesplinefitstable_mem(&wb, &h.c) == 0) fail("writesplinefitstable_mem:succeeded-on-handle-without-data", "");
					struct ::ndsparse *nds = nullptr; const double *cp[1] = {nullptr}; uint32_t nc[1] = {0}; if (splinetable_grideval(&h.c, cp, nc, &nds) == 0) fail("splinetable_grideval:succeeded-on-handle-without-data", "");
					double kn[2] = {0, 1}; if (splinetable_convolve(&h.c, 0, kn, 2) == 0) fail("splinetable_convolve:succeeded-on-handle-without-data", ""); size_t pm[1] = {0}; if (splinetable_permute(&h.c, pm) == 0) fail("splinetable_permute:succeeded-on-handle-without-data", "");
					count("calls:on-null-data-handle"); continue;
				}
				if (kind % 4 == 1 && h.c.data == nullptr) { // reading into a handle that holds no table (zeroed or freed): the wrapper creates one; after a failed read the handle holds a valid empty table
					int w = (int)r.below(3); bool mem = r.coin(0.5); hist += std::string(mem ? "readmem-into-nulldata(" : "read-into-nulldata(") + (w == 0 ? "good);" : w == 1 ? "truncated);" : "missing);"); phase_log(mem ? "readsplinefitstable_mem into handle without data" : "readsplinefitstable into handle without data");
					h.twin = new Table(); std::string pth = w == 0 ? goodpath : w == 1 ? badpath : g_tmp + "/nonexistent.fits";
					if (mem) { std::vector<unsigned char> bytes; FILE *f = fopen((w == 1 ? badpath : goodpath).c_str(), "rb"); unsigned char bb[4096]; size_t nn; while (f && (nn = fread(bb, 1, sizeof bb, f)) > 0) bytes.insert(bytes.end(), bb, bb + nn); if (f) fclose(f); if (w == 2) bytes.resize(100);
						std::vector<unsigned char> c1 = bytes, c2 = bytes; try { h.twin->read_fits_mem(c1.data(), c1.size()); } catch (std::exception &) { threw = true; } splinetable_buffer sb; sb.data = c2.data(); sb.size = c2.size(); rc = readsplinefitstable_mem(&sb, &h.c); expect("readsplinefitstable_mem"); }
					else { try { h.twin->read_fits(pth); } catch (std::exception &) { threw = true; } rc = readsplinefitstable(pth.c_str(), &h.c); expect("readsplinefitstable"); }
					if (h.c.data == nullptr) { fail("read-into-handle-without-data:handle-left-without-a-table", ""); delete h.twin; h.twin = nullptr; continue; }
					h.live = true; if (splinetable_ndim(&h.c) != h.twin->get_ndim()) fail("read-into-handle-without-data:dimension-differs-from-C++", ""); count("calls:read-into-null-data-handle"); continue;
				}
				phase_log("splinetable_init"); hist += "init;"; rc = splinetable_init(&h.c); h.twin = new Table(); h.live = true; expect("splinetable_init"); continue;
			}
			Table &T = *h.twin; Table &CT = *static_cast<Table *>(h.c.data);
			bool populated = T.get_ndim() != 0;
			if (!populated && kind >= 11 && kind % 3 == 0) { // operations that need a table must fail cleanly on a valid handle whose table is still empty
				phase_log("calls on an empty table"); hist += "empty-table-calls;"; count("calls:on-empty-table");
				double kn[3] = {-0.1, 0.0, 0.2}; for (int dim = -1; dim <= 1; dim++) if (splinetable_convolve(&h.c, dim, kn, 3) == 0) fail("splinetable_convolve:succeeded-on-empty-table", "dim=" + std::to_string(dim));
				size_t pm[2] = {0, 1}; if (splinetable_permute(&h.c, pm) == 0 && T.get_ndim() == 0) { bool twinthrew = false; try { std::vector<size_t> e; T.permuteDimensions(e); } catch (std::exception &) { twinthrew = true; } if (twinthrew) fail("splinetable_permute:return-code-differs-from-C++-outcome", "empty table"); }
				if (writesplinefitstable(outpath.c_str(), &h.c) == 0) fail("writesplinefitstable:succeeded-on-empty-table", ""); splinetable_buffer wb; wb.data = nullptr; wb.size = 0; if (writesplinefitstable_mem(&wb, &h.c) == 0) fail("writesplinefitstable_mem:succeeded-on-empty-table", ""); free(wb.data);
				// lookup and evaluation: nothing can be looked up in an empty table; none of these calls may take the process down
				{ phase_log("lookup and evaluation on an empty table"); double x0[2] = {0.5, 0.5}; int c0[2] = {0, 0}; double g0[3] = {7, 7, 7}; unsigned de[2] = {0, 0};
				  int sc = tablesearchcenters(&h.c, x0, c0); if (sc != 0) fail("tablesearchcenters:reports-success-on-empty-table", "returned " + std::to_string(sc));
				  double v = ndsplineeval(&h.c, x0, c0, 0); (void)v; ndsplineeval_gradient(&h.c, x0, c0, g0); v = ndsplineeval_deriv(&h.c, x0, c0, de); count("calls:evaluation-on-empty-table"); }
				if (splinetable_ndim(&h.c) != 0) fail("state:empty-table-changed-by-failing-calls", "");
				continue;
			}
			switch (kind) {
			case 0: { phase_log("splinetable_free"); hist += "free;"; splinetable_free(&h.c); delete h.twin; h.twin = nullptr; h.live = false; count("calls:splinetable_free"); if (h.c.data) fail("splinetable_free:data-not-reset", ""); continue; }
			case 1: case 2: { // read from disk: good / truncated / missing; into empty or occupied handle
				int w = (int)r.below(3); std::string p = w == 0 ? goodpath : w == 1 ? badpath : g_tmp + "/does-not-exist.fits"; hist += std::string("read(") + (w == 0 ? "good" : w == 1 ? "truncated" : "missing") + (populated ? ",occupied" : "") + ");";
				phase_log("readsplinefitstable"); try { T.read_fits(p); } catch (std::exception &) { threw = true; }
				rc = readsplinefitstable(p.c_str(), &h.c); expect("readsplinefitstable"); break; }
			case 3: { // read from memory
				Spec g = small_spec(r); Bytes b = mkfits(g); size_t n = r.coin(0.25) ? b.n / 3 : b.n; hist += std::string("readmem(") + (n == b.n ? "good" : "truncated") + (populated ? ",occupied" : "") + ");";
				std::vector<unsigned char> c1((unsigned char *)b.p, (unsigned char *)b.p + n), c2 = c1; free(b.p);
				phase_log("readsplinefitstable_mem"); try { T.read_fits_mem(c1.data(), n); } catch (std::exception &) { threw = true; }
				splinetable_buffer sb; sb.data = c2.data(); sb.size = n; rc = readsplinefitstable_mem(&sb, &h.c); expect("readsplinefitstable_mem"); break; }
			case 4: { hist += "write;"; phase_log("writesplinefitstable"); try { T.write_fits(outpath2); } catch (std::exception &) { threw = true; }
				rc = writesplinefitstable(outpath.c_str(), &h.c); expect("writesplinefitstable");
				if (rc == 0 && !threw) { FILE *f1 = fopen(outpath.c_str(), "rb"), *f2 = fopen(outpath2.c_str(), "rb"); std::vector<char> b1, b2; char buf[4096]; size_t n; while (f1 && (n = fread(buf, 1, 4096, f1)) > 0) b1.insert(b1.end(), buf, buf + n); while (f2 && (n = fread(buf, 1, 4096, f2)) > 0) b2.insert(b2.end(), buf, buf + n); if (f1) fclose(f1); if (f2) fclose(f2); if (b1 != b2 || b1.empty()) fail("writesplinefitstable:file-differs-from-C++", ""); }
				unlink(outpath.c_str()); unlink(outpath2.c_str()); break; }
			case 5: { hist += "writemem;"; phase_log("writesplinefitstable_mem"); std::pair<void *, size_t> w(nullptr, 0); try { w = T.write_fits_mem(); } catch (std::exception &) { threw = true; }
				splinetable_buffer sb; sb.data = nullptr; sb.size = 0; rc = writesplinefitstable_mem(&sb, &h.c); expect("writesplinefitstable_mem");
				if (rc == 0 && !threw && (sb.size != w.second || memcmp(sb.data, w.first, w.second))) fail("writesplinefitstable_mem:buffer-differs-from-C++", "");
				if (rc != 0 && sb.data) fail("writesplinefitstable_mem:buffer-set-on-failure", "");
				free(w.first); free(sb.data); break; }
			case 6: case 7: { // keys
				static const char *ks[] = {"NUM", "TXT", "NEWKEY", "ANOTHERLONGKEY", "NAXIS", "bad key", "ABSENT"}; std::string k = ks[r.below(7)]; int sub = (int)r.below(4);
				if (sub == 0) { int v = (int)r.below(100000); hist += "wkey(" + k + ");"; phase_log("splinetable_write_key"); try { T.write_key(k.c_str(), v); } catch (std::exception &) { threw = true; } rc = splinetable_write_key(&h.c, SPLINETABLE_INT, k.c_str(), &v); expect("splinetable_write_key"); }
				else if (sub == 1) { double v = (r.U() - 0.5) * 1e3; if (r.coin(0.5)) v *= std::pow(10.0, (double)r.range(-9, 9)); /* stored in exponent form for magnitudes >= 1e6 or < 1e-4: the typed reads must agree on what that text denotes */ hist += "wkeyd(" + k + ");"; phase_log("splinetable_write_key"); try { T.write_key(k.c_str(), v); } catch (std::exception &) { threw = true; } rc = splinetable_write_key(&h.c, SPLINETABLE_DOUBLE, k.c_str(), &v); expect("splinetable_write_key"); }
				else if (sub == 2) { int v1 = -5, v2 = -5; hist += "rkey(" + k + ");"; phase_log("splinetable_read_key"); bool ok = T.read_key(k.c_str(), v1); threw = !ok; rc = splinetable_read_key(&h.c, SPLINETABLE_INT, k.c_str(), &v2); expect("splinetable_read_key"); if (ok && rc == 0 && v1 != v2) fail("splinetable_read_key:value-differs-from-C++", k);
					double d1 = -5, d2 = -5; ok = T.read_key(k.c_str(), d1); threw = !ok; rc = splinetable_read_key(&h.c, SPLINETABLE_DOUBLE, k.c_str(), &d2); expect("splinetable_read_key"); if (ok && rc == 0 && !biteq(d1, d2)) fail("splinetable_read_key:value-differs-from-C++", k); }
				else { if (T.get_naux_values() && r.coin(0.7)) k = T.get_aux_key(r.below(T.get_naux_values())); hist += "gkey(" + k + ");"; phase_log("splinetable_get_key"); const char *v1 = T.get_aux_value(k.c_str()), *v2 = splinetable_get_key(&h.c, k.c_str()); count("calls:splinetable_get_key"); if ((v1 == nullptr) != (v2 == nullptr) || (v1 && strcmp(v1, v2))) fail("splinetable_get_key:differs-from-C++", k);
					// the result points into the table (as get_aux_value's does): it stays what it is while the caller fetches other keys, from this handle or another one
					if (v1 && v2) { std::string want = v1; long others = 0; for (int gi = 0; gi < nh; gi++) { H &g = hs[gi]; if (!g.live || !g.c.data) continue; Table &GT = *g.twin; for (size_t qi = 0; qi < GT.get_naux_values(); qi++) { const char *ok = GT.get_aux_key(qi); if (&g == &h && k == ok) continue; const char *ov = splinetable_get_key(&g.c, ok); if (ov) others++; } }
						if (others) { count("get_key:results-re-examined-after-fetching-other-keys"); if (want != v2) fail("splinetable_get_key:earlier-result-changed-by-a-later-call", k); } } }
				break; }
			case 8: case 9: case 10: { // accessors + evaluation (populated tables only)
				if (!populated) { if (splinetable_ndim(&h.c) != 0) fail("splinetable_ndim:non-zero-for-empty-table", ""); count("calls:splinetable_ndim"); continue; }
				hist += "access+eval;"; phase_log("accessors");
				unsigned nd = T.get_ndim(); bool ok = splinetable_ndim(&h.c) == nd && splinetable_total_ncoeffs(&h.c) == T.get_ncoeffs();
				for (unsigned d = 0; d < nd && ok; d++) { ok = splinetable_order(&h.c, d) == T.get_order(d) && splinetable_nknots(&h.c, d) == T.get_nknots(d) && splinetable_ncoeffs(&h.c, d) == T.get_ncoeffs(d) && splinetable_stride(&h.c, d) == T.get_stride(d) && biteq(splinetable_lower_extent(&h.c, d), T.lower_extent(d)) && biteq(splinetable_upper_extent(&h.c, d), T.upper_extent(d)) && biteq(splinetable_period(&h.c, d), T.get_period(d)) && memcmp(splinetable_knots(&h.c, d), T.get_knots(d), 8 * T.get_nknots(d)) == 0 && biteq(splinetable_knot(&h.c, d, T.get_nknots(d) - 1), T.get_knot(d, T.get_nknots(d) - 1)); }
				if (ok) ok = memcmp(splinetable_coefficients(&h.c), T.get_coefficients(), 4 * T.get_ncoeffs()) == 0;
				count("calls:accessors"); if (!ok) fail("accessors:differ-from-C++", "");
				phase_log("evaluation wrappers");
				std::vector<double> x(nd); std::vector<int> c1(nd), c2(nd); for (unsigned d = 0; d < nd; d++) { const double *k = T.get_knots(d); x[d] = k[0] + (k[T.get_nknots(d) - 1] - k[0]) * (r.U() * 1.1 - 0.05); }
				bool s1 = T.searchcenters(x.data(), c1.data()); int s2 = tablesearchcenters(&h.c, x.data(), c2.data()); count("calls:tablesearchcenters");
				if (s1 != (s2 != 0) || (s1 && c1 != c2)) fail("tablesearchcenters:differs-from-C++", "");
				if (s1) { int m = (int)r.below(1u << nd); if (!biteq(T.ndsplineeval(x.data(), c1.data(), m), ::ndsplineeval(&h.c, x.data(), c1.data(), m))) fail("ndsplineeval:differs-from-C++", "");
					std::vector<double> g1(nd + 1), g2(nd + 1); T.ndsplineeval_gradient(x.data(), c1.data(), g1.data()); ::ndsplineeval_gradient(&h.c, x.data(), c1.data(), g2.data()); if (memcmp(g1.data(), g2.data(), 8 * (nd + 1))) fail("ndsplineeval_gradient:differs-from-C++", "");
					std::vector<unsigned> de(nd); for (auto &q : de) q = (unsigned)r.below(3); if (!biteq(T.ndsplineeval_deriv(x.data(), c1.data(), de.data()), ::ndsplineeval_deriv(&h.c, x.data(), c1.data(), de.data()))) fail("ndsplineeval_deriv:differs-from-C++", ""); count("calls:evaluation"); }
				break; }
			case 11: { // convolve: valid, or invalid dimension / kernel size
				if (!populated) continue; unsigned nd = T.get_ndim(); int dim = (int)r.below(nd + 2) - 1; int nk = (int)r.below(5); std::vector<double> kn; double y = -0.3; for (int i = 0; i < std::max(nk, 1); i++) { kn.push_back(y); y += 0.1 + r.U() * 0.3; }
				bool valid = dim >= 0 && dim < (int)nd && nk >= 2 && T.get_order(dim) + nk <= 7 && T.get_ncoeffs() < 400; hist += std::string("convolve(") + (valid ? "valid" : "invalid") + ");";
				if (dim >= 0 && dim < (int)nd && nk >= 2 && !valid) continue; // keep tables small
				phase_log("splinetable_convolve");
				if (valid) { try { T.convolve((uint32_t)dim, kn.data(), (size_t)nk); } catch (std::exception &) { threw = true; } } else threw = true;
				rc = splinetable_convolve(&h.c, dim, kn.data(), (size_t)nk); expect("splinetable_convolve");
				break; } // (an invalid call must leave the C-side table equal to the untouched twin: checked below for every call)
			case 12: { // permute valid / invalid
				if (!populated) continue; unsigned nd = T.get_ndim(); std::vector<size_t> p(nd); for (unsigned i = 0; i < nd; i++) p[i] = i; for (int i = (int)nd - 1; i > 0; i--) std::swap(p[i], p[r.below(i + 1)]);
				bool valid = r.coin(0.6); if (!valid) p[r.below(nd)] = nd >= 2 && r.coin(0.5) ? p[(r.below(nd))] : (size_t)nd + r.below(3); bool isperm = true; { std::vector<int> seen(nd, 0); for (size_t v : p) { if (v >= nd || seen[v]) isperm = false; else seen[v] = 1; } }
				hist += std::string("permute(") + (isperm ? "valid" : "invalid") + ");"; phase_log("splinetable_permute");
				try { T.permuteDimensions(p); } catch (std::exception &) { threw = true; } std::vector<size_t> pc = p; rc = splinetable_permute(&h.c, pc.data()); expect("splinetable_permute"); break; }
			case 13: case 14: { // fit: good / bad arguments / into occupied handle
				bool refused = r.coin(0.04); // a consistent request the fitter itself refuses late (its flattened array would exceed INT_MAX columns): fails on both sides, and gives back everything
				int nd = refused ? 5 : r.range(1, 2); std::vector<uint32_t> ord(nd), por(nd); std::vector<std::vector<double>> kn(nd), co(nd); std::vector<double> lam(nd); size_t npt = 1;
				for (int d = 0; d < nd; d++) { ord[d] = (uint32_t)r.below(3); por[d] = (uint32_t)r.below(ord[d] + 1); int nk = 2 * ord[d] + 2 + (int)r.below(3); kn[d] = gen_knots(r, ord[d], nk, 1, 1.0, 0.0, true); int np = nk + 3; for (int i = 0; i < np; i++) co[d].push_back(kn[d][0] + (kn[d].back() - kn[d][0]) * (0.01 + 0.98 * (i + 0.5) / np)); npt *= np; lam[d] = r.coin(0.5) ? 0.0 : 0.1; }
				if (refused) { npt = 1; for (int d = 0; d < nd; d++) { ord[d] = 0; por[d] = 0; lam[d] = 0; kn[d].clear(); for (int i = 0; i < 16; i++) kn[d].push_back(i); co[d] = {7.5}; } count("fits-the-fitter-refuses-late"); }
				photospline::ndsparse data(npt, nd), data2(npt, nd); std::vector<double> w(npt, 1.0); std::vector<unsigned> I(nd);
				for (size_t lin = 0; lin < npt; lin++) { size_t q = lin; for (int d = nd - 1; d >= 0; d--) { I[d] = (unsigned)(q % co[d].size()); q /= co[d].size(); } double y = std::sin(1.0 * lin) + 2; std::vector<unsigned> J = I; data.insertEntry(y, J.data()); J = I; data2.insertEntry(y, J.data()); }
				int bad = (int)r.below(4); uint32_t monodim = r.coin(0.2) ? 0 : Table::no_monodim; if (refused) { bad = 0; monodim = Table::no_monodim; }
				if (bad == 1) { if (kn[0].size() >= 3) std::swap(kn[0][1], kn[0][2]); else bad = 0; } else if (bad == 2) monodim = (uint32_t)nd + 1; else if (bad == 3) kn[0].resize(ord[0] + 1);
				hist += std::string("fit(") + (bad == 0 || bad > 3 ? "good" : "bad") + (populated ? ",occupied" : "") + ");"; phase_log("splinetable_glamfit");
				try { T.fit(data, w, co, ord, kn, lam, por, monodim, false); } catch (std::exception &) { threw = true; }
				std::vector<const double *> cp, kp; std::vector<uint64_t> nk; for (int d = 0; d < nd; d++) { cp.push_back(co[d].data()); kp.push_back(kn[d].data()); nk.push_back(kn[d].size()); }
				rc = splinetable_glamfit(&h.c, &data2, w.data(), cp.data(), ord.data(), kp.data(), nk.data(), lam.data(), por.data(), monodim, false); expect("splinetable_glamfit"); break; }
			case 15: { // grideval
				if (!populated || T.get_ncoeffs() > 2000) continue; unsigned nd = T.get_ndim(); std::vector<std::vector<double>> g(nd); for (unsigned d = 0; d < nd; d++) { int np = 1 + (int)r.below(4); const double *k = T.get_knots(d); for (int i = 0; i < np; i++) g[d].push_back(k[0] + (k[T.get_nknots(d) - 1] - k[0]) * r.U()); }
				// a request that gets refused half-way (more flattened columns than the sparse-matrix code can index): rc != 0, no result, and - at the end of the history - no leak
				if (nd == 3 && r.coin(0.25)) { for (unsigned d = 0; d < 2; d++) { const double *k = T.get_knots(d); double inside = g[d][0], outside = k[0] - 1.0 - (k[T.get_nknots(d) - 1] - k[0]); g[d].assign(46400, outside); g[d][0] = inside; } g[2].resize(1); hist += "grideval(46400x46400x1);"; count("calls:splinetable_grideval:too-long-for-the-index-type"); }
				bool wrongcount = false; hist += "grideval;"; phase_log("splinetable_grideval");
				std::unique_ptr<photospline::ndsparse> n1; try { n1 = T.grideval(g); } catch (std::exception &) { threw = true; }
				std::vector<const double *> cp; std::vector<uint32_t> nc; for (unsigned d = 0; d < nd; d++) { cp.push_back(g[d].data()); nc.push_back((uint32_t)g[d].size()); } struct ::ndsparse *n2 = nullptr; (void)wrongcount;
				rc = splinetable_grideval(&h.c, cp.data(), nc.data(), &n2); expect("splinetable_grideval");
				if (rc == 0 && n1 && n2) { bool same = n1->rows == n2->rows; for (size_t q = 0; same && q < n1->rows; q++) { if (!biteq(n1->x[q], n2->x[q])) same = false; for (unsigned d = 0; d < nd; d++) if (n1->i[d][q] != n2->i[d][q]) same = false; } if (!same) fail("splinetable_grideval:differs-from-C++", ""); }
				if (rc != 0 && n2) fail("splinetable_grideval:result-set-on-failure", ""); if (n2) ndsparse_destroy(n2); break; }
			default: continue;
			}
			// after every call the C-side table must equal the twin
			if (h.live && h.c.data) { Table &C2 = *static_cast<Table *>(h.c.data); if (!same_table(C2, *h.twin)) fail("state:C-side-table-differs-from-twin-after-call", ""); }
			else if (h.live && !h.c.data) fail("state:handle-lost-its-table", "");
		} catch (std::exception &e) { fail("exception-escaped-from-C-wrapper", e.what()); break; }
		catch (...) { fail("exception-escaped-from-C-wrapper", "unknown"); break; }
	}
	for (auto &h : hs) { if (h.live) { phase_log("final splinetable_free"); splinetable_free(&h.c); delete h.twin; } }
	unlink(goodpath.c_str()); unlink(badpath.c_str()); unlink(outpath.c_str()); unlink(outpath2.c_str());
	distinct(hh);
	std::string lk = leak_check(g_tmp);
	if (!lk.empty()) { viol("C18:leak:" + lk, "{\"history\":" + jstr(hist.substr(0, 1200)) + "}"); finish_early_and_exit(); }
	if (cs % 50 == 0) sample("{\"handles\":" + std::to_string(nh) + ",\"history\":" + jstr(hist.substr(0, 600)) + "}");
}

int main(int argc, char **argv) {
	Args a = parse_args(argc, argv);
	open_out(a.outpath);
	g_tmp = a.tmpdir;
	for (long cs = a.from; cs < a.to; cs++) { begin_case(cs); run_C18(a, cs); }
	finish();
	fflush(stdout);
	_exit(0);
}
