// h_eval.cpp - monitors for C01 (value), C02 (derivatives), C03 (path independence),
// C04 (centre lookup), C05 (memory safety of lookup + evaluation).
#if defined(__x86_64__) || defined(__i386__)
#include <xmmintrin.h>
#endif
#include "vf_ref.h"
#include <photospline/cinter/splinetable.h>
#include <stdexcept>

using namespace vf;
typedef photospline::splinetable<> Table;

// ---------------------------------------------------------------- coordinates
enum PtClass { P_KNOT, P_KNOT_UP, P_KNOT_DN, P_LOMARGIN, P_HIMARGIN, P_INTERIOR, P_TOP, P_LAST, P_FIRST, P_BEYOND, P_MID, P_NCLASS };
static const char *ptclass_name[] = {"knot", "knot+ulp", "knot-ulp", "lower-margin", "upper-margin", "interior", "top-of-support", "last-knot", "first-knot", "beyond", "mid-interval"};

static double gen_coord(Rng &r, const std::vector<double> &k, unsigned o, int &cls, double p_out) {
	int nk = (int)k.size();
	double u = r.U();
	if (u < p_out) cls = r.coin(0.5) ? P_FIRST : P_BEYOND;
	else {
		static const int pool[] = {P_KNOT, P_KNOT, P_KNOT_UP, P_KNOT_DN, P_LOMARGIN, P_LOMARGIN, P_HIMARGIN, P_HIMARGIN, P_INTERIOR, P_INTERIOR, P_INTERIOR, P_TOP, P_LAST, P_MID};
		cls = pool[r.below(sizeof(pool) / sizeof(int))];
	}
	switch (cls) {
	case P_KNOT: return k[1 + r.below(nk - 1)];
	case P_KNOT_UP: return std::nextafter(k[r.below(nk - 1)], INFINITY);
	case P_KNOT_DN: return std::nextafter(k[1 + r.below(nk - 1)], -INFINITY);
	case P_LOMARGIN: return k[0] + (k[o] - k[0]) * r.U();
	case P_HIMARGIN: return k[nk - 1 - o] + (k[nk - 1] - k[nk - 1 - o]) * r.U();
	case P_INTERIOR: return k[o] + (k[nk - 1 - o] - k[o]) * r.U();
	case P_TOP: return k[nk - 1 - o];
	case P_LAST: return k[nk - 1];
	case P_FIRST: return k[0];
	case P_BEYOND: { double w = k[nk - 1] - k[0]; if (!(w > 0)) w = 1; return r.coin(0.5) ? k[0] - w * r.U() - std::fabs(k[0]) * 1e-12 : k[nk - 1] + w * (r.U() + 1e-9) + std::fabs(k[nk - 1]) * 1e-9; }
	default: { int j = (int)r.below(nk - 1); return k[j] + 0.5 * (k[j + 1] - k[j]); }
	}
}
static bool in_range(const Spec &s, const double *x) {
	for (int d = 0; d < s.ndim(); d++) { const auto &k = s.knots[d]; if (!(x[d] > k[0] && x[d] <= k.back())) return false; }
	return true;
}
// region tag of a point (for finding keys): which parts of the domain are involved
static std::string region_tag(const Spec &s, const double *x) {
	bool lo = false, hi = false, knot = false, minhi = false, minlo = false;
	for (int d = 0; d < s.ndim(); d++) {
		const auto &k = s.knots[d]; int nk = (int)k.size(); unsigned o = s.order[d];
		if (x[d] < k[o]) { lo = true; if (nk == 2 * (int)o + 2) minlo = true; }
		if (x[d] > k[nk - 1 - o]) { hi = true; if (nk == 2 * (int)o + 2) minhi = true; }
		for (double kk : k) if (kk == x[d]) knot = true;
	}
	std::string t;
	if (lo) t += minlo ? "lower-margin(minknots)" : "lower-margin";
	if (hi) t += std::string(t.empty() ? "" : "+") + (minhi ? "upper-margin(minknots)" : "upper-margin");
	if (t.empty()) t = "interior";
	if (knot) t += "+on-knot";
	return t;
}
static std::string pt_json(const Spec &s, const std::vector<double> &x, const std::vector<int> &c) {
	std::string j = "{\"x\":" + jarrd(x) + ",\"xhex\":[";
	for (size_t i = 0; i < x.size(); i++) { if (i) j += ","; j += jhex(x[i]); }
	j += "],\"centers\":" + jarr(c) + ",\"table\":" + s.full_json() + "}";
	return j;
}

struct CHandle {
	splinetable h; bool ok;
	CHandle(const Spec &s) { h.data = nullptr; Bytes b = mkfits(s); splinetable_buffer sb; sb.data = b.p; sb.size = b.n; ok = readsplinefitstable_mem(&sb, &h) == 0; free(b.p); }
	~CHandle() { splinetable_free(&h); }
};

// exact-size heap copies so that ASan red zones catch any over-run of caller buffers
template <class T> struct Exact {
	T *p; size_t n;
	Exact(size_t n_) : n(n_) { p = (T *)malloc(n * sizeof(T) + (n == 0)); }
	Exact(const std::vector<T> &v) : n(v.size()) { p = (T *)malloc(n * sizeof(T) + (n == 0)); std::copy(v.begin(), v.end(), p); }
	~Exact() { free(p); }
};

static GenOpts opts_for(const std::string &prop, const std::string &tier) {
	GenOpts g; bool th = tier == "thorough";
	g.zero_width_support = true;
	if (prop == "C01") { g.max_block = th ? 32768 : 4096; g.max_coef = th ? 400000 : 100000; }
	else if (prop == "C02") { g.max_dim = 7; g.max_block = th ? 8192 : 2048; g.max_coef = th ? 200000 : 60000; g.mag_exp_max = 6; }
	else if (prop == "C05") { g.max_block = th ? 40000 : 8000; g.max_coef = th ? 400000 : 100000; g.min_table_bias = 0.6; }
	return g;
}

// ================================================================ C01
static void run_C01(const Args &a, long cs) {
	Rng r(a.seed, "C01", cs);
	GenOpts g = opts_for("C01", a.tier);
	Spec s = gen_spec(r, g); if (s.flavor.find("zero-width-support") != std::string::npos) count("tables-with-a-zero-width-fully-supported-range");
	Table T; if (!load(T, s)) { viol("C01:load:well-formed-table-rejected", s.full_json()); return; }
	CHandle C(s);
	auto Ef = T.get_evaluator<float>(); auto Ed = T.get_evaluator<double>();
	if (!s.extents.empty()) count("tables-with-custom-extents");
	int nd = s.ndim(); int npts = a.tier == "thorough" ? 600 : 250;
	if (s.block() > 2000) npts /= 4;
	bool ones = true; for (float c : s.coef) if (c != 1.f) ones = false;
	count("tables"); count("flavor:" + s.flavor.substr(0, s.flavor.find('/'))); count("ndim:" + std::to_string(nd));
	for (int d = 0; d < nd; d++) { count("order:" + std::to_string(s.order[d])); if ((int)s.knots[d].size() == 2 * (int)s.order[d] + 2) count("dims-with-minimum-knots"); }
	if (ones) count("tables-all-ones");
	std::vector<double> x(nd); std::vector<int> c(nd), cls(nd);
	for (int p = 0; p < npts; p++) {
		for (int d = 0; d < nd; d++) x[d] = gen_coord(r, s.knots[d], s.order[d], cls[d], 0.01);
		phase("searchcenters");
		bool ok = T.searchcenters(x.data(), c.data());
		count("points");
		if (ok != in_range(s, x.data())) { note("lookup-disagrees-with-range(C04)"); continue; }
		if (!ok) { count("points-lookup-failed"); continue; }
		RefVal rv = ref_eval_point(s, x.data(), nullptr);
		if (!(std::isfinite((double)rv.M)) || !std::isfinite((double)rv.S)) { count("points-nonfinite-skipped"); continue; }
		LD tf = ref_tol(s, rv, false), td = ref_tol(s, rv, true);
		phase("ndsplineeval<float>"); double vf_ = T.ndsplineeval<float>(x.data(), c.data(), 0);
		phase("ndsplineeval<double>"); double vd = T.ndsplineeval<double>(x.data(), c.data(), 0);
		phase("operator()"); double vo = T(x.data());
		phase("C:ndsplineeval"); double vc = C.ok ? ::ndsplineeval(&C.h, x.data(), c.data(), 0) : vf_;
		phase("evaluator<float>"); double ef1 = Ef.ndsplineeval(x.data(), c.data(), 0), ef2 = Ef(x.data(), 0);
		phase("evaluator<double>"); double ed1 = Ed.ndsplineeval(x.data(), c.data(), 0), ed2 = Ed(x.data(), 0);
		std::string tag = region_tag(s, x.data());
		bool margin = tag.find("margin") != std::string::npos, onknot = tag.find("on-knot") != std::string::npos;
		for (int d = 0; d < nd; d++) count(std::string("ptclass:") + ptclass_name[cls[d]]);
		if (rv.M > 0) { uint64_t h = s.hash(); for (double v : x) h = hash_d(h, v); distinct(h); count("points-checked"); if (margin) count("points-in-margin"); if (onknot) count("points-on-knot"); }
		else count("points-trivial(M=0)");
		struct { const char *name; double v; LD tol; } chk[] = {{"ndsplineeval<float>", vf_, tf}, {"ndsplineeval<double>", vd, td}, {"operator()", vo, tf}, {"C:ndsplineeval", vc, tf},
			{"evaluator<float>::ndsplineeval", ef1, tf}, {"evaluator<float>::operator()", ef2, tf}, {"evaluator<double>::ndsplineeval", ed1, td}, {"evaluator<double>::operator()", ed2, td}};
		if (!rv.float_range_ok()) count("points-beyond-float-range(float-paths-not-judged)");
		for (auto &k : chk) {
			if (k.tol == tf && !rv.float_range_ok()) continue;
			LD err = fabsl((LD)k.v - rv.S);
			if (!(err <= k.tol)) {
				viol(std::string("C01:") + k.name + ":value-mismatch:" + tag,
				     "{\"lib\":" + jnum(k.v) + ",\"ref\":" + jnum((double)rv.S) + ",\"M\":" + jnum((double)rv.M) + ",\"tol\":" + jnum((double)k.tol) + ",\"err\":" + jnum((double)err) + ",\"point\":" + pt_json(s, x, c) + "}");
			}
			if (rv.M > 0 && k.tol > 0) { double ratio = (double)(err / k.tol); long b = ratio < 1e-3 ? 0 : ratio < 1e-2 ? 1 : ratio < 1e-1 ? 2 : 3; count(std::string("errratio:") + (b == 0 ? "<1e-3" : b == 1 ? "<1e-2" : b == 2 ? "<1e-1" : "<=1")); }
		}
		if (ones && tag.find("margin") == std::string::npos) {
			count("partition-of-unity-points");
			if (!(fabsl((LD)vf_ - 1) <= tf) || !(fabsl((LD)vd - 1) <= td)) viol("C01:ndsplineeval:partition-of-unity:" + tag, "{\"float\":" + jnum(vf_) + ",\"double\":" + jnum(vd) + ",\"point\":" + pt_json(s, x, c) + "}");
		}
		if (p == 0 && rv.M > 0) sample("{\"table\":" + s.brief() + ",\"x\":" + jarrd(x) + ",\"region\":" + jstr(tag) + ",\"lib_float\":" + jnum(vf_) + ",\"lib_double\":" + jnum(vd) + ",\"ref\":" + jnum((double)rv.S) + ",\"M\":" + jnum((double)rv.M) + "}");
	}
}

// ================================================================ C02
static LD deriv_floor_scale(const Spec &s, const unsigned *ders) {
	LD sc = 1;
	for (int d = 0; d < s.ndim(); d++) if (ders[d]) {
		LD hmin = 0;
		for (size_t i = 1; i < s.knots[d].size(); i++) { LD h = (LD)s.knots[d][i] - s.knots[d][i - 1]; if (h > 0 && (hmin == 0 || h < hmin)) hmin = h; }
		if (hmin > 0) sc *= powl(std::max<LD>(1, (LD)std::max(1u, s.order[d]) / hmin), (int)ders[d]);
	}
	return sc;
}
static LD tol_deriv(const Spec &s, const RefVal &rv, const unsigned *ders, bool dbl) {
	LD t = ref_tol(s, rv, dbl);
	LD u = dbl ? ldexpl(1, -53) : ldexpl(1, -24), eta = dbl ? ldexpl(1, -1074) : ldexpl(1, -149);
	LD cmax = 0; for (float c : s.coef) cmax = std::max(cmax, fabsl((LD)c));
	int dsum = 0; for (int d = 0; d < s.ndim(); d++) dsum += ders[d];
	// extra roundings of the derivative recurrences (3 per derivative level and order)
	t += (LD)(6 * dsum * 8) * u * rv.M;
	t += (LD)s.block() * (s.ndim() + 2) * std::max<LD>(1, cmax) * eta * deriv_floor_scale(s, ders);
	return t;
}
static void run_C02(const Args &a, long cs) {
	Rng r(a.seed, "C02", cs);
	GenOpts g = opts_for("C02", a.tier);
	bool strict = r.coin(0.5); g.strict_increasing = strict;
	// high spline orders (up to 12) in one or two dimensions: above order 8 the derivative code takes a different route (shared sub-results instead of plain recursion)
	bool highorder = r.coin(0.07); if (highorder) { g.max_dim = 2; g.max_order = 12; g.known_patterns = false; g.extra_knots_max = 4; strict = true; g.strict_increasing = true; g.mag_exp_max = 2; }
	Spec s = gen_spec(r, g);
	if (highorder) { // one dimension of order 9..12, optionally a second one of low order
		s = Spec(); int hnd = r.range(1, 2), hd = (int)r.below(hnd); size_t tot = 1; for (int d = 0; d < hnd; d++) { unsigned o = d == hd ? (unsigned)r.range(9, 12) : (unsigned)r.below(4); int nk = 2 * o + 2 + (int)r.below(5); s.order.push_back(o); s.knots.push_back(gen_knots(r, o, nk, r.coin(0.3) ? 0 : 1, 1.0, r.U() * 4 - 2, true)); tot *= (size_t)(nk - o - 1); }
		s.coef.resize(tot); for (auto &c : s.coef) c = (float)(r.U() - 0.4); s.flavor = "irregular/unit/normal/high-order"; }
	if (highorder) { bool any = false; for (unsigned o : s.order) if (o >= 9) any = true; if (any) count("tables-with-an-order-above-8"); } if (s.flavor.find("zero-width-support") != std::string::npos) count("tables-with-a-zero-width-fully-supported-range");
	Table T; if (!load(T, s)) { viol("C02:load:well-formed-table-rejected", s.full_json()); return; }
	auto Ef = T.get_evaluator<float>(); auto Ed = T.get_evaluator<double>();
	if (!s.extents.empty()) count("tables-with-custom-extents");
	int nd = s.ndim(); int npts = a.tier == "thorough" ? 200 : 80;
	if (s.block() > 1000) npts /= 4;
	if (highorder) npts = a.tier == "thorough" ? 40 : 30; // (the long-double reference recursion costs 2^order per basis value)
	count("tables"); count(strict ? "tables-strict-knots" : "tables-repeated-allowed"); count("ndim:" + std::to_string(nd));
	bool has0 = false; for (unsigned o : s.order) { count("order:" + std::to_string(o)); if (o == 0) has0 = true; }
	if (has0) count("tables-with-order0-axis");
	std::vector<double> x(nd); std::vector<int> c(nd), cls(nd);
	Exact<double> grad(nd + 1);
	for (int p = 0; p < npts; p++) {
		for (int d = 0; d < nd; d++) x[d] = gen_coord(r, s.knots[d], s.order[d], cls[d], 0.005);
		phase("searchcenters");
		if (!T.searchcenters(x.data(), c.data())) continue;
		if (!in_range(s, x.data())) { note("lookup-disagrees-with-range(C04)"); continue; }
		std::string tag = region_tag(s, x.data());
		count("points");
		uint64_t h = s.hash(); for (double v : x) h = hash_d(h, v);
		// ---- bitmask derivatives
		std::vector<int> masks;
		if (nd <= 4) for (int m = 1; m < (1 << nd); m++) masks.push_back(m);
		else { for (int q = 0; q < 6; q++) masks.push_back(1 + (int)r.below((1u << nd) - 1)); for (int d = 0; d < nd; d++) masks.push_back(1 << d); }
		std::vector<LD> single_ref(nd, 0), single_tol(nd, 0); std::vector<bool> single_ok(nd, false);
		for (int m : masks) {
			std::vector<unsigned> ders(nd); bool ord0 = false;
			for (int d = 0; d < nd; d++) { ders[d] = (m >> d) & 1; if (ders[d] && s.order[d] == 0) ord0 = true; }
			RefVal rv = ref_eval_point(s, x.data(), ders.data());
			if (!std::isfinite((double)rv.M)) { count("nonfinite-skipped"); continue; }
			LD tf = tol_deriv(s, rv, ders.data(), false), td = tol_deriv(s, rv, ders.data(), true);
			if (__builtin_popcount(m) == 1) { int d = __builtin_ctz(m); single_ref[d] = rv.S; single_tol[d] = tf; single_ok[d] = true; }
			phase("ndsplineeval<float>(mask)"); double lf = T.ndsplineeval<float>(x.data(), c.data(), m);
			phase("ndsplineeval<double>(mask)"); double ld_ = T.ndsplineeval<double>(x.data(), c.data(), m);
			phase("evaluator(mask)"); double lef = Ef.ndsplineeval(x.data(), c.data(), m), led = Ed.ndsplineeval(x.data(), c.data(), m);
			if (rv.float_range_ok() && !(fabsl((LD)lef - rv.S) <= tf)) viol("C02:evaluator<float>(mask):derivative-mismatch:" + tag, "{\"mask\":" + std::to_string(m) + ",\"lib\":" + jnum(lef) + ",\"ref\":" + jnum((double)rv.S) + ",\"tol\":" + jnum((double)tf) + ",\"point\":" + pt_json(s, x, c) + "}");
			if (!(fabsl((LD)led - rv.S) <= td)) viol("C02:evaluator<double>(mask):derivative-mismatch:" + tag, "{\"mask\":" + std::to_string(m) + ",\"lib\":" + jnum(led) + ",\"ref\":" + jnum((double)rv.S) + ",\"tol\":" + jnum((double)td) + ",\"point\":" + pt_json(s, x, c) + "}");
			count("mask-derivative-checks");
			if (rv.M > 0 || ord0) distinct(hash_mix(h, 1000 + m));
			std::string sub = ord0 ? ":order0-axis" : "";
			if (ord0) count("mask-checks-on-order0-axis");
			bool frange = rv.float_range_ok(); if (!frange) count("requests-beyond-float-range(float-paths-not-judged)");
			if (frange && !(fabsl((LD)lf - rv.S) <= tf)) viol("C02:ndsplineeval<float>(mask):derivative-mismatch" + sub + ":" + tag, "{\"mask\":" + std::to_string(m) + ",\"lib\":" + jnum(lf) + ",\"ref\":" + jnum((double)rv.S) + ",\"M\":" + jnum((double)rv.M) + ",\"tol\":" + jnum((double)tf) + ",\"point\":" + pt_json(s, x, c) + "}");
			if (!(fabsl((LD)ld_ - rv.S) <= td)) viol("C02:ndsplineeval<double>(mask):derivative-mismatch" + sub + ":" + tag, "{\"mask\":" + std::to_string(m) + ",\"lib\":" + jnum(ld_) + ",\"ref\":" + jnum((double)rv.S) + ",\"M\":" + jnum((double)rv.M) + ",\"tol\":" + jnum((double)td) + ",\"point\":" + pt_json(s, x, c) + "}");
		}
		// ---- gradient
		if (nd <= 7) {
			RefVal rv0 = ref_eval_point(s, x.data(), nullptr);
			for (int variant = 0; variant < 4; variant++) {
				int prec = variant & 1;
				static const char *gnames[] = {"ndsplineeval_gradient<float>", "ndsplineeval_gradient<double>", "evaluator<float>::ndsplineeval_gradient", "evaluator<double>::ndsplineeval_gradient"};
				const char *nm = gnames[variant];
				phase(nm);
				for (int i = 0; i <= nd; i++) grad.p[i] = -12345.678;
				if (variant == 0) T.ndsplineeval_gradient<float>(x.data(), c.data(), grad.p); else if (variant == 1) T.ndsplineeval_gradient<double>(x.data(), c.data(), grad.p);
				else if (variant == 2) Ef.ndsplineeval_gradient(x.data(), c.data(), grad.p); else Ed.ndsplineeval_gradient(x.data(), c.data(), grad.p);
				if (std::isfinite((double)rv0.M)) {
					LD t0 = ref_tol(s, rv0, prec);
					if ((prec || rv0.float_range_ok()) && !(fabsl((LD)grad.p[0] - rv0.S) <= t0)) viol(std::string("C02:") + nm + ":value-lane-mismatch:" + tag, "{\"lib\":" + jnum(grad.p[0]) + ",\"ref\":" + jnum((double)rv0.S) + ",\"point\":" + pt_json(s, x, c) + "}");
				}
				for (int d = 0; d < nd; d++) {
					std::vector<unsigned> ders(nd, 0); ders[d] = 1;
					RefVal rv = ref_eval_point(s, x.data(), ders.data());
					if (!std::isfinite((double)rv.M)) continue;
					LD t = tol_deriv(s, rv, ders.data(), prec);
					count("gradient-component-checks");
					std::string sub = s.order[d] == 0 ? ":order0-axis" : "";
					if (!prec && !rv.float_range_ok()) continue;
					if (!(fabsl((LD)grad.p[d + 1] - rv.S) <= t)) viol(std::string("C02:") + nm + ":gradient-component-mismatch" + sub + ":" + tag, "{\"component\":" + std::to_string(d) + ",\"lib\":" + jnum(grad.p[d + 1]) + ",\"ref\":" + jnum((double)rv.S) + ",\"M\":" + jnum((double)rv.M) + ",\"tol\":" + jnum((double)t) + ",\"point\":" + pt_json(s, x, c) + "}");
				}
			}
			distinct(hash_mix(h, 77));
		}
		// ---- arbitrary-order derivatives
		int sweepdim = highorder ? (int)r.below(nd) : -1; int nq = highorder ? (int)s.order[sweepdim] + 6 : 4; // high orders: every derivative order 0..order+1 of one dimension in turn at this point, then random requests
		for (int q = 0; q < nq; q++) {
			std::vector<unsigned> ders(nd, 0); bool above = false, high = false;
			int ndiff = 1 + (int)r.below(std::min(nd, 3));
			for (int j = 0; j < ndiff; j++) { int d = (int)r.below(nd); unsigned mx = strict ? s.order[d] + 1 : std::min(1u, s.order[d] + 1); ders[d] = (unsigned)r.below(mx + 1); }
			if (highorder && q >= 1 && q <= (int)s.order[sweepdim] + 2) { std::fill(ders.begin(), ders.end(), 0u); ders[sweepdim] = (unsigned)(q - 1); count("deriv-order-sweeps-at-one-point"); }
			else if (q == 0) { int d = (int)r.below(nd); ders[d] = s.order[d] + 1; if (!strict && ders[d] > 1) ders[d] = s.order[d] == 0 ? 1 : 0; } // force "above order" regularly
			for (int d = 0; d < nd; d++) { if (ders[d] > s.order[d]) above = true; if (ders[d] >= 2) high = true; }
			Exact<unsigned> de(ders);
			phase("ndsplineeval_deriv"); double lv = T.ndsplineeval_deriv(x.data(), c.data(), de.p);
			{ double lv2 = Ef.ndsplineeval_deriv(x.data(), c.data(), de.p); if (!biteq(lv, lv2) && !(std::isnan(lv) && std::isnan(lv2))) { count("deriv-evaluator-differs-from-member(evaluator-value-judged)"); lv = lv2; } }
			count("ndsplineeval_deriv-checks"); if (above) count("deriv-above-order-checks"); if (high) count("deriv-order>=2-checks");
			distinct(hash_mix(h, hash_str(jarr(ders))));
			std::string dj = "{\"ders\":" + jarr(ders) + ",\"lib\":" + jnum(lv);
			if (above) {
				{ std::vector<unsigned> dz = ders; for (int d = 0; d < nd; d++) if (dz[d] > s.order[d]) dz[d] = 0; RefVal rz = ref_eval_point(s, x.data(), dz.data()); if (!rz.float_range_ok()) { count("requests-beyond-float-range(float-paths-not-judged)"); continue; } } // other dimensions' factors must be finite in float for 0*factor to be 0
				bool a0 = false, a1 = false;
				for (int d = 0; d < nd; d++) if (ders[d] > s.order[d]) { if (s.order[d] == 0) a0 = true; else a1 = true; }
				if (!(lv == 0)) viol(std::string("C02:ndsplineeval_deriv:derivative-above-order-not-zero") + (a0 ? ":order0-axis" : "") + (a1 ? ":order>=1-axis" : ""), dj + ",\"point\":" + pt_json(s, x, c) + "}");
				continue;
			}
			RefVal rv = ref_eval_point(s, x.data(), ders.data());
			if (!std::isfinite((double)rv.M)) continue;
			LD t = tol_deriv(s, rv, ders.data(), false);
			if (!rv.float_range_ok()) { count("requests-beyond-float-range(float-paths-not-judged)"); continue; }
			if (!(fabsl((LD)lv - rv.S) <= t)) {
				// discriminate the on-knot/top-of-support class (one-sided convention for derivative orders >= 2)
				bool topknot = false;
				for (int d = 0; d < nd; d++) if (ders[d] >= 2) { const auto &k = s.knots[d]; int nk = (int)k.size(); if (x[d] >= k[nk - 1 - s.order[d]]) for (double kk : k) if (kk == x[d]) topknot = true; }
				viol(std::string("C02:ndsplineeval_deriv:derivative-mismatch:") + (high ? "order>=2" : "order<=1") + (topknot ? ":on-knot-at-or-above-top" : ":" + tag),
				     dj + ",\"ref\":" + jnum((double)rv.S) + ",\"M\":" + jnum((double)rv.M) + ",\"tol\":" + jnum((double)t) + ",\"point\":" + pt_json(s, x, c) + "}");
			}
		}
		if (p == 0) sample("{\"table\":" + s.brief() + ",\"x\":" + jarrd(x) + ",\"masks_checked\":" + std::to_string(masks.size()) + ",\"region\":" + jstr(tag) + "}");
	}
}

// ================================================================ C03
static std::vector<std::vector<unsigned>> c03_patterns() {
	std::vector<std::vector<unsigned>> p;
	for (int nd = 1; nd <= 9; nd++) for (unsigned k = 0; k <= 5; k++) p.push_back(std::vector<unsigned>(nd, k));
	p.push_back({2, 2, 2, 3, 2, 2}); p.push_back({2, 2, 2, 5, 2, 2});
	// near misses of the known patterns: longer, shorter, permuted (must not be routed to the 6-d routines)
	p.push_back({2, 2, 2, 3, 2, 2, 2}); p.push_back({2, 2, 2, 5, 2, 2, 1}); p.push_back({2, 2, 2, 3, 2, 2, 3, 2}); p.push_back({2, 2, 2, 5, 2, 2, 2, 2, 2});
	p.push_back({2, 2, 2, 3, 2}); p.push_back({2, 2, 3, 2, 2, 2}); p.push_back({2, 2, 2, 2, 5, 2}); p.push_back({2, 2, 2, 4, 2, 2}); p.push_back({1, 2, 2, 2, 3, 2, 2});
	return p;
}
// tables with non-finite coefficients: a result that is NaN through one path must be NaN through every path (sign and payload of a NaN are not compared:
// they depend on the order of the operands); any other result stays compared bit for bit
static bool g_nan_equiv = false;
static inline bool beq(double a, double b) { return biteq(a, b) || (g_nan_equiv && std::isnan(a) && std::isnan(b)); }
template <class F> static void c03_compare(const Spec &s, const Table &T, CHandle &C, Rng &r, const std::vector<double> &xv, const char *prec) {
	int nd = s.ndim();
	Exact<double> x(xv); Exact<int> c(nd), c2(nd), c3(nd);
	auto E = T.get_evaluator<F>();
	for (int i = 0; i < nd; i++) c.p[i] = c2.p[i] = c3.p[i] = -99;
	phase("searchcenters");
	bool ok = T.searchcenters(x.p, c.p), ok2 = E.searchcenters(x.p, c2.p); bool ok3 = C.ok ? tablesearchcenters(&C.h, x.p, c3.p) != 0 : ok;
	std::vector<int> cv(c.p, c.p + nd);
	auto bad = [&](const std::string &what, double a, double b) {
		viol(std::string("C03:") + what + ":" + prec, "{\"a\":" + jhex(a) + ",\"b\":" + jhex(b) + ",\"a_dec\":" + jnum(a) + ",\"b_dec\":" + jnum(b) + ",\"point\":" + pt_json(s, xv, cv) + "}");
	};
	if (ok != ok2 || ok != ok3) { bad("searchcenters:result-differs-between-paths", ok, ok2 + 2 * ok3); return; }
	count("comparisons:searchcenters");
	if (!ok) {
		phase("operator() on failed lookup");
		double v = E(x.p, 0); if (!(v == 0)) bad("evaluator-operator():nonzero-on-failed-lookup", v, 0);
		return;
	}
	for (int i = 0; i < nd; i++) if (c.p[i] != c2.p[i] || (C.ok && c.p[i] != c3.p[i])) { bad("searchcenters:centers-differ-between-paths", c.p[i], c2.p[i]); return; }
	uint64_t h = s.hash(); for (double v : xv) h = hash_d(h, v); distinct(hash_mix(h, sizeof(F)));
	bool isf = sizeof(F) == 4;
#if defined(__x86_64__) || defined(__i386__)
	_mm_setcsr(0x1F80); /* every comparison starts from the default floating-point control state of a fresh thread (the harness owns the environment between calls) */
#endif
	phase("value paths");
	double v1 = T.template ndsplineeval<F>(x.p, c.p, 0), v2 = E.ndsplineeval(x.p, c.p, 0), v3 = E(x.p, 0);
	count("comparisons:value");
	if (!beq(v1, v2)) bad("value:member-vs-evaluator", v1, v2);
	if (!beq(v2, v3)) bad("value:evaluator-ndsplineeval-vs-operator()", v2, v3);
	if (isf) {
		double v4 = T(x.p); if (!beq(v1, v4)) bad("value:member-vs-call-operator", v1, v4);
		if (C.ok) { double v5 = ::ndsplineeval(&C.h, x.p, c.p, 0); if (!beq(v1, v5)) bad("value:member-vs-C", v1, v5); }
	}
	phase("mask derivative paths");
	for (int q = 0; q < 2; q++) {
		int mask = q == 0 ? (1 << r.below(nd)) : (int)r.below(1u << nd);
		double d1 = T.template ndsplineeval<F>(x.p, c.p, mask), d2 = E.ndsplineeval(x.p, c.p, mask), d3 = E(x.p, mask);
		count("comparisons:mask-derivative");
		if (!beq(d1, d2)) bad("mask-derivative:member-vs-evaluator", d1, d2);
		if (!beq(d2, d3)) bad("mask-derivative:evaluator-ndsplineeval-vs-operator()", d2, d3);
		if (isf && C.ok) { double d5 = ::ndsplineeval(&C.h, x.p, c.p, mask); if (!beq(d1, d5)) bad("mask-derivative:member-vs-C", d1, d5); }
	}
	if (nd <= 7) {
		phase("gradient paths");
		Exact<double> g1(nd + 1), g2(nd + 1), g3(nd + 1);
		T.template ndsplineeval_gradient<F>(x.p, c.p, g1.p); E.ndsplineeval_gradient(x.p, c.p, g2.p);
		count("comparisons:gradient");
		for (int i = 0; i <= nd; i++) if (!beq(g1.p[i], g2.p[i])) { bad("gradient:member-vs-evaluator:lane" + std::string(i ? "N" : "0"), g1.p[i], g2.p[i]); break; }
		if (!beq(g1.p[0], v1)) bad("gradient:value-lane-vs-plain-value", g1.p[0], v1);
		if (!beq(g2.p[0], v2)) bad("gradient:evaluator-value-lane-vs-plain-value", g2.p[0], v2);
		if (isf && C.ok) { ::ndsplineeval_gradient(&C.h, x.p, c.p, g3.p); for (int i = 0; i <= nd; i++) if (!beq(g1.p[i], g3.p[i])) { bad("gradient:member-vs-C", g1.p[i], g3.p[i]); break; } }
		for (int i = 0; i < nd; i++) { double di = T.template ndsplineeval<F>(x.p, c.p, 1 << i); if (!beq(di, g1.p[i + 1])) { note(std::string("gradient-lane-vs-mask-derivative-differs(not a C03 verdict)") + (s.order[i] == 0 ? ":order0" : "")); break; } }
	}
	if (isf) {
		phase("ndsplineeval_deriv paths");
		std::vector<unsigned> dv(nd); for (auto &d : dv) d = (unsigned)r.below(3);
		Exact<unsigned> de(dv);
		double e1 = T.ndsplineeval_deriv(x.p, c.p, de.p), e2 = E.ndsplineeval_deriv(x.p, c.p, de.p);
		count("comparisons:ndsplineeval_deriv");
		if (!beq(e1, e2)) bad("ndsplineeval_deriv:member-vs-evaluator", e1, e2);
		if (C.ok) { double e3 = ::ndsplineeval_deriv(&C.h, x.p, c.p, de.p); if (!beq(e1, e3)) bad("ndsplineeval_deriv:member-vs-C", e1, e3); }
		double e4 = T.ndsplineeval_deriv(x.p, c.p, nullptr); if (!beq(e4, v1)) bad("ndsplineeval_deriv(nullptr)-vs-plain-value", e4, v1);
	}
	phase("value repeated after the other paths");
	double v1r = T.template ndsplineeval<F>(x.p, c.p, 0); count("comparisons:value-repeated");
	if (!beq(v1r, v1)) bad("value:member-repeated-after-the-other-paths-differs", v1, v1r);
}
static void run_C03(const Args &a, long cs) {
	Rng r(a.seed, "C03", cs);
	static const std::vector<std::vector<unsigned>> pats = c03_patterns();
	bool th = a.tier == "thorough";
	size_t cap = th ? 1200000 : 300000;
	std::vector<unsigned> ord;
	std::string kind;
	if (cs % 3 != 2) { ord = pats[(cs / 3 * 2 + cs % 3) % pats.size()]; kind = "pattern"; }
	else { int nd = r.range(1, 9); ord.resize(nd); for (auto &o : ord) o = (unsigned)r.below(nd >= 7 ? 3 : 6); kind = "mixed"; }
	size_t blk = 1; for (unsigned o : ord) blk *= o + 1;
	if (blk > cap) { // keep dimension count (it selects the routine), lower the order of trailing axes
		if (kind == "pattern") { count("patterns-skipped-too-large:" + jarr(ord)); return; }
		while (blk > cap) { size_t i = r.below(ord.size()); if (ord[i] > 0) { blk = blk / (ord[i] + 1) * ord[i]; ord[i]--; } }
	}
	Spec s; size_t tot = 1; int nd = (int)ord.size();
	int flavor = (int)r.below(5);
	for (int d = 0; d < nd; d++) {
		unsigned o = ord[d]; int extra = (blk > 20000 || nd >= 7) ? (int)r.below(2) : (int)r.below(6);
		if (tot * (o + 1 + extra) > 4 * cap) extra = 0;
		int nk = 2 * o + 2 + extra;
		s.order.push_back(o); s.knots.push_back(gen_knots(r, o, nk, flavor, 1.0, r.U() * 4 - 2, false)); tot *= (size_t)(nk - o - 1);
	}
	s.coef.resize(tot); for (auto &c : s.coef) c = (float)(r.U() - 0.5);
	if (r.coin(0.2)) { float sc = (float)std::pow(10.0, -(double)r.range(33, 42)); for (auto &c : s.coef) c *= sc; count("tables-with-coefficients-near-or-in-the-subnormal-range-of-float"); } // terms and sums subnormal in float: any path that treats them differently (flush-to-zero, another accumulation order) shows
	s.flavor = std::string(knot_flavor_name(flavor)) + "/" + kind;
	g_nan_equiv = false;
	if (r.coin(0.08)) { static const float nf[] = {INFINITY, -INFINITY, NAN}; size_t k = 1 + r.below(std::max<size_t>(1, tot / 8)); for (size_t q = 0; q < k; q++) s.coef[r.below(tot)] = nf[r.below(3)]; g_nan_equiv = true; s.flavor += "/non-finite-coefficients"; count("tables-with-non-finite-coefficients"); }
	if (r.coin(0.3)) { add_custom_extents(r, s); count("tables-with-custom-extents"); }
	Table T; if (!load(T, s)) { viol("C03:load:well-formed-table-rejected", s.full_json()); return; }
	CHandle C(s);
	count("tables"); count("tables-" + kind); count("ndim:" + std::to_string(nd));
	int npts = blk > 100000 ? 4 : blk > 10000 ? 12 : (th ? 120 : 40);
	std::vector<double> x(nd); std::vector<int> cls(nd);
	for (int p = 0; p < npts; p++) {
		for (int d = 0; d < nd; d++) x[d] = gen_coord(r, s.knots[d], s.order[d], cls[d], 0.02);
		c03_compare<float>(s, T, C, r, x, "float");
		c03_compare<double>(s, T, C, r, x, "double");
		count("points");
	}
	// ---- the same handle after its order pattern has changed in place (permutation, convolution through the C interface): whatever the C entry points keep
	// between calls belongs to the table as it was; values through C must still be the member's, bit for bit. (T2 gets the same change through the C++ calls.)
	if (C.ok && !g_nan_equiv && tot <= 20000 && nd <= 8) {
		bool differ = false; for (int d = 1; d < nd; d++) if (s.order[d] != s.order[0]) differ = true;
		Table T2; if (!load(T2, s)) return; bool changed = false; std::string how;
		if (nd >= 2 && (differ || r.coin(0.3))) { std::vector<size_t> perm(nd); for (int d = 0; d < nd; d++) perm[d] = d; for (int tries = 0; tries < 8; tries++) { for (int i = nd - 1; i > 0; i--) std::swap(perm[i], perm[r.below(i + 1)]); bool moved = false; for (int d = 0; d < nd; d++) if (s.order[perm[d]] != s.order[d]) moved = true; if (moved || !differ) break; }
			phase("C:splinetable_permute on a handle that has been evaluated"); std::vector<size_t> pc = perm; if (splinetable_permute(&C.h, pc.data()) == 0) { T2.permuteDimensions(perm); changed = true; how = "permuted"; } }
		else { int cd = (int)r.below(nd); bool inc = true; for (size_t i = 1; i < s.knots[cd].size(); i++) if (!(s.knots[cd][i] > s.knots[cd][i - 1])) inc = false; double span = s.knots[cd].back() - s.knots[cd][0]; double kn[2] = {-0.05 * span, 0.07 * span};
			if (inc && s.order[cd] < 5) { phase("C:splinetable_convolve on a handle that has been evaluated"); if (splinetable_convolve(&C.h, cd, kn, 2) == 0) { T2.convolve((uint32_t)cd, kn, 2); changed = true; how = "convolved"; } } }
		if (changed) {
			count("C-handles-changed-in-place-after-evaluation:" + how); std::vector<double> y(nd); std::vector<int> cc(nd), c5(nd); bool fin = true; for (uint64_t i = 0; i < T2.get_ncoeffs(); i++) if (!std::isfinite(T2.get_coefficients()[i])) fin = false;
			for (int p = 0; p < 12 && fin; p++) {
				for (int d = 0; d < nd; d++) { const double *k = T2.get_knots(d); uint64_t nk = T2.get_nknots(d); y[d] = k[0] + (k[nk - 1] - k[0]) * r.U(); }
				if (!T2.searchcenters(y.data(), cc.data())) continue; if (tablesearchcenters(&C.h, y.data(), c5.data()) == 0 || cc != c5) { viol("C03:searchcenters:C-differs-from-member-after-the-handle-was-" + how + "-in-place", "{\"table\":" + s.brief() + "}"); break; }
				double v1 = T2.ndsplineeval<float>(y.data(), cc.data(), 0), v5 = ::ndsplineeval(&C.h, y.data(), cc.data(), 0); count("comparisons:C-after-in-place-change");
				if (!biteq(v1, v5)) { viol("C03:value:member-vs-C:after-the-handle-was-" + how + "-in-place", "{\"member\":" + jhex(v1) + ",\"C\":" + jhex(v5) + ",\"member_dec\":" + jnum(v1) + ",\"C_dec\":" + jnum(v5) + ",\"table\":" + s.brief() + "}"); break; }
				if (nd < 8) { std::vector<double> g1(nd + 1), g5(nd + 1); T2.ndsplineeval_gradient<float>(y.data(), cc.data(), g1.data()); ::ndsplineeval_gradient(&C.h, y.data(), cc.data(), g5.data()); if (memcmp(g1.data(), g5.data(), 8 * (nd + 1))) { viol("C03:gradient:member-vs-C:after-the-handle-was-" + how + "-in-place", "{\"table\":" + s.brief() + "}"); break; } }
			}
		}
	}
	sample("{\"table\":" + s.brief() + ",\"points\":" + std::to_string(npts) + ",\"block\":" + std::to_string(blk) + "}");
}

// ================================================================ C04
static int ref_center(const std::vector<double> &k, unsigned o, double x, bool &ok) {
	int nk = (int)k.size(), nax = nk - (int)o - 1;
	ok = x > k[0] && x <= k[nk - 1];
	if (!ok) return -1;
	if (x < k[o]) return (int)o;
	if (x >= k[nax]) return nax - 1;
	int c = -1;
	for (int j = (int)o; j < nax; j++) if (k[j] <= x && x < k[j + 1]) { c = j; break; } // half-open bracket; knots non-decreasing => unique among non-empty intervals
	return c;
}
static void run_C04(const Args &a, long cs) {
	Rng r(a.seed, "C04", cs);
	if (cs % 50 == 7) {
		// the table without knots (default-constructed, left by a failed read, moved from): every lookup fails, so both call operators return zero
		Table E0; double x0[3] = {r.U(), 0.0, -1.0}; int c0[3] = {-7, -7, -7};
		phase("empty table: searchcenters"); bool ok = E0.searchcenters(x0, c0);
		if (ok) viol("C04:searchcenters:empty-table-lookup-succeeds", "{}");
		phase("empty table: operator()"); double v = E0(x0); if (!(v == 0)) viol("C04:operator():nonzero-on-failed-lookup", "{\"table\":\"empty\"}");
		phase("empty table: get_evaluator<float>"); { auto Ef = E0.get_evaluator<float>(); phase("empty table: evaluator<float> lookup and operator()"); if (Ef.searchcenters(x0, c0)) viol("C04:searchcenters:empty-table-lookup-succeeds", "{\"path\":\"evaluator<float>\"}"); double w = Ef(x0, 0); if (!(w == 0)) viol("C04:evaluator-operator():nonzero-on-failed-lookup", "{\"table\":\"empty\"}"); }
		phase("empty table: get_evaluator<double>"); { auto Ed = E0.get_evaluator<double>(); phase("empty table: evaluator<double> lookup and operator()"); double w = Ed(x0, 0); if (!(w == 0)) viol("C04:evaluator-operator():nonzero-on-failed-lookup", "{\"table\":\"empty\"}"); }
		count("empty-table-lookups");
	}
	int nd = r.coin(0.6) ? 1 : r.range(2, 3);
	Spec s; size_t tot = 1;
	std::string fl;
	for (int d = 0; d < nd; d++) {
		unsigned o = (unsigned)r.below(6); int nk = 2 * o + 2 + (int)r.below(12);
		int kind = (int)r.below(9);
		if (kind == 8 && o < 2) kind = 0;
		if (kind == 8) nk = 2 * o + 2 + (int)r.below(o - 1);
		std::vector<double> k;
		const char *kn[] = {"unit", "repeated", "tiny1e-300", "huge1e300", "ratio1e12", "denormal", "clamped", "both-signs-near-DBL_MAX(span-overflows)", "zero-width-supported-range"};
		double x0, sc;
		switch (kind) {
		case 2: sc = 1e-300; x0 = (r.U() - 0.5) * 1e-299; break;
		case 3: sc = 1e296; x0 = -1e299 * r.U(); break;
		case 5: sc = 5e-324 * (1 + r.below(50)); x0 = r.coin(0.5) ? 0.0 : -5e-324 * r.below(40); break;
		case 7: sc = 0; x0 = 0; break; // filled below: finite increasing knots from about -1.6e308 to +1.6e308, so that last - first is not representable
		default: sc = 1; x0 = r.U() * 10 - 5; break;
		}
		double x = x0;
		for (int i = 0; i < nk; i++) {
			k.push_back(x);
			double st = (0.01 + r.U() * r.U() * 1e3) * sc;
			if (kind == 4) st = std::pow(10.0, r.U() * 12 - 6);
			if (kind == 5) st = sc * (1 + r.below(3));
			if (kind == 1 && o >= 1 && i > (int)o && (i < nk - (int)o - 2 || (i == nk - (int)o - 2 && r.coin(0.5))) && r.coin(0.35)) st = 0; // (i == nk-o-2: the top knot of full support repeats the one below it)
			x += st;
		}
		if (kind == 7) { k.clear(); double lo = -1.6e308 * (0.8 + 0.2 * r.U()), hi = 1.6e308 * (0.8 + 0.2 * r.U()); std::vector<double> u; for (int i = 0; i < nk; i++) u.push_back(r.U()); std::sort(u.begin(), u.end()); u[0] = 0; u[nk - 1] = 1; for (int i = 0; i < nk; i++) k.push_back(lo * (1 - u[i]) + hi * u[i]); for (int i = 1; i < nk; i++) if (!(k[i] > k[i - 1])) k[i] = std::nextafter(k[i - 1], INFINITY); }
		if (kind == 1) { int run = 1; for (int i = 1; i < nk; i++) { if (k[i] == k[i - 1]) { run++; if (run > (int)o) { for (int j = i; j < nk; j++) k[j] += 0.5; run = 1; } } else run = 1; } }
		if (kind == 6) for (unsigned i = 0; i < o; i++) { k[i] = k[o]; k[nk - 1 - i] = k[nk - 1 - o]; }
		if (kind == 8) { double v = k[o], sh = k[nk - o - 1] - v; for (int i = (int)o; i < nk; i++) k[i] = i <= nk - (int)o - 1 ? v : k[i] - sh; } // knots[order..nknots-order-1] coincide: the supported range is one point
		s.order.push_back(o); s.knots.push_back(k); tot *= (size_t)(nk - o - 1);
		fl += std::string(d ? "," : "") + kn[kind]; count(std::string("knotkind:") + kn[kind]);
	}
	s.coef.resize(tot); for (auto &c : s.coef) c = (float)(r.U() - 0.5);
	s.flavor = fl;
	if (r.coin(0.4)) { add_custom_extents(r, s); count("tables-with-custom-extents"); }
	Table T; if (!load(T, s)) { viol("C04:load:well-formed-table-rejected", s.full_json()); return; }
	CHandle C(s);
	count("tables"); count("ndim:" + std::to_string(nd));
	// candidate coordinates per dimension
	std::vector<std::vector<double>> cand(nd);
	for (int d = 0; d < nd; d++) {
		auto &k = s.knots[d]; auto &p = cand[d];
		for (double kk : k) { p.push_back(kk); p.push_back(std::nextafter(kk, INFINITY)); p.push_back(std::nextafter(kk, -INFINITY)); }
		double sp[] = {INFINITY, -INFINITY, 0.0, -0.0, 5e-324, -5e-324, std::numeric_limits<double>::max(), -std::numeric_limits<double>::max(), std::numeric_limits<double>::min(), 1.0, -1.0};
		for (double v : sp) p.push_back(v);
		for (int i = 0; i < 12; i++) { double t = r.U() * 1.2 - 0.1; p.push_back(t < 0 || t > 1 ? k[0] + (k.back() * 0.5 - k[0] * 0.5) * 2 * t : k[0] * (1 - t) + k.back() * t); } // (convex combination: the span itself may not be representable)
	}
	size_t npts = nd == 1 ? cand[0].size() : (a.tier == "thorough" ? 600 : 250);
	std::vector<double> xv(nd); std::vector<int> want(nd);
	for (size_t p = 0; p < npts; p++) {
		if (nd == 1) xv[0] = cand[0][p];
		else { size_t special = r.below(nd); for (int d = 0; d < nd; d++) { if ((size_t)d == special || r.coin(0.3)) xv[d] = r.pick(cand[d]); else { auto &k = s.knots[d]; double t = r.U(); xv[d] = k[0] * (1 - t) + k.back() * t; } } }
		bool exp_ok = true;
		for (int d = 0; d < nd; d++) { bool ok1; want[d] = ref_center(s.knots[d], s.order[d], xv[d], ok1); if (!ok1) exp_ok = false; }
		Exact<double> x(xv); Exact<int> c(nd), cc(nd);
		for (int d = 0; d < nd; d++) c.p[d] = cc.p[d] = -77;
		phase("searchcenters"); bool ok = T.searchcenters(x.p, c.p);
		phase("C:tablesearchcenters"); bool okc = C.ok ? tablesearchcenters(&C.h, x.p, cc.p) != 0 : ok;
		count("lookups"); count(exp_ok ? "lookups-expected-success" : "lookups-expected-failure");
		uint64_t h = s.hash(); for (double v : xv) h = hash_d(h, v); distinct(h);
		std::vector<int> cv(c.p, c.p + nd);
		std::string pj = pt_json(s, xv, cv);
		if (ok != exp_ok) { viol(std::string("C04:searchcenters:") + (ok ? "accepted-outside-knot-range" : "rejected-inside-knot-range"), pj); continue; }
		if (okc != ok) { viol("C04:tablesearchcenters:differs-from-C++", pj); }
		phase("operator()"); double vo = T(x.p);
		if (!ok) { if (!(vo == 0) || std::signbit(vo)) { if (!(vo == 0)) viol("C04:operator():nonzero-on-failed-lookup", pj); } continue; }
		bool bad = false;
		for (int d = 0; d < nd && !bad; d++) {
			int nk = (int)s.knots[d].size(), o = (int)s.order[d], nax = nk - o - 1; const auto &k = s.knots[d];
			if (c.p[d] < o || c.p[d] > nk - o - 2) { viol("C04:searchcenters:center-outside-supported-range", pj); bad = true; break; }
			if (C.ok && cc.p[d] != c.p[d]) { viol("C04:tablesearchcenters:centers-differ-from-C++", pj); bad = true; break; }
			bool infull = xv[d] >= k[o] && xv[d] <= k[nax];
			if (infull) {
				// at the right end of the supported range the bracket is the last supported interval whose right end x is; when the top knot is a repeated one the
				// intervals directly below it are empty (no polynomial piece) and the last non-empty one is meant
				int lastne = nax - 1; while (lastne > o && k[lastne] == k[lastne + 1]) lastne--;
				bool br = (k[c.p[d]] <= xv[d] && xv[d] < k[c.p[d] + 1]) || (xv[d] == k[nax] && c.p[d] == lastne);
				if (xv[d] == k[nax] && lastne != nax - 1) count("lookups-on-a-repeated-top-knot");
				if (!br) { viol("C04:searchcenters:center-does-not-bracket", pj); bad = true; break; }
				count("bracket-checks");
			} else {
				if (c.p[d] != want[d]) { viol("C04:searchcenters:not-nearest-supported-interval", pj); bad = true; break; }
				count("nearest-interval-checks");
			}
		}
		if (bad) continue;
		phase("ndsplineeval"); double v = T.ndsplineeval<float>(x.p, c.p, 0);
		if (!biteq(v, vo)) viol("C04:operator():differs-from-evaluated-value", pj);
		count("call-operator-checks");
	}
	sample("{\"table\":" + s.brief() + ",\"lookups\":" + std::to_string(npts) + "}");
}

// ================================================================ C05
static double hostile_coord(Rng &r, const std::vector<double> &k) {
	switch (r.below(12)) {
	case 0: case 1: case 2: { uint64_t b = r.u64(); double d; memcpy(&d, &b, 8); return d; }                // any bit pattern
	case 3: { uint64_t b = 0x7ff0000000000000ULL | (r.u64() & 0x800fffffffffffffULL) | 1; double d; memcpy(&d, &b, 8); return d; } // NaN payloads
	case 4: return r.coin(0.5) ? INFINITY : -INFINITY;
	case 5: return (r.coin(0.5) ? 1 : -1) * 5e-324 * (double)r.below(1000);
	case 6: return k[r.below(k.size())];
	case 7: return std::nextafter(k[r.below(k.size())], r.coin(0.5) ? INFINITY : -INFINITY);
	case 8: return (r.coin(0.5) ? 1 : -1) * std::numeric_limits<double>::max();
	case 9: return std::nan("");
	default: return k[0] + (k.back() - k[0]) * (r.U() * 1.4 - 0.2);
	}
}
static void run_C05(const Args &a, long cs) {
	Rng r(a.seed, "C05", cs);
	GenOpts g = opts_for("C05", a.tier);
	Spec s;
	if (cs % 4 == 3) { // large dimension counts with the specialised routines
		static const std::vector<std::vector<unsigned>> pats = c03_patterns();
		std::vector<unsigned> ord = pats[r.below(pats.size())];
		size_t blk = 1; for (unsigned o : ord) blk *= o + 1;
		while (blk > g.max_block) { size_t i = r.below(ord.size()); if (ord[i] > 0) { blk = blk / (ord[i] + 1) * ord[i]; ord[i]--; } }
		size_t tot = 1;
		for (unsigned o : ord) { int nk = 2 * o + 2 + (int)r.below(2); s.order.push_back(o); s.knots.push_back(gen_knots(r, o, nk, (int)r.below(5), 1.0, r.U(), false)); tot *= (size_t)(nk - o - 1); }
		s.coef.resize(tot); for (auto &c : s.coef) c = (float)(r.U() - 0.5);
		s.flavor = "pattern";
		if (r.coin(0.3)) add_custom_extents(r, s);
	} else { s = gen_spec(r, g); if (s.flavor.find("zero-width-support") != std::string::npos) count("tables-with-a-zero-width-fully-supported-range"); }
	if (!s.extents.empty()) count("tables-with-custom-extents");
	Table T; if (!load(T, s)) { viol("C05:load:well-formed-table-rejected", s.full_json()); return; }
	CHandle C(s);
	int nd = s.ndim(); int npts = a.tier == "thorough" ? 400 : 150; if (s.block() > 2000) npts /= 5;
	count("tables"); count("ndim:" + std::to_string(nd));
	for (int d = 0; d < nd; d++) if ((int)s.knots[d].size() == 2 * (int)s.order[d] + 2) count("dims-with-minimum-knots");
	auto Ef = T.get_evaluator<float>(); auto Ed = T.get_evaluator<double>();
	std::vector<double> xv(nd);
	volatile double sink = 0;
	for (int p = 0; p < npts; p++) {
		bool anynan = false;
		bool edge_mode = r.coin(0.45); // mostly admissible vectors whose special coordinates sit on knots / neighbours / ends
		int hostile = 1 + (int)r.below(edge_mode ? std::min(nd, 2) : nd);
		std::vector<int> rank(nd); for (int d = 0; d < nd; d++) rank[d] = d;
		for (int d = nd - 1; d > 0; d--) std::swap(rank[d], rank[r.below(d + 1)]);
		for (int d = 0; d < nd; d++) {
			int pos = rank[d]; // position in a random order decides which dimensions get the special coordinates
			auto &k = s.knots[d];
			if (p < 3) xv[d] = k[0] + (k.back() - k[0]) * r.U(); // a few plainly admissible vectors per table so every entry point runs
			else if (edge_mode) { int cl; xv[d] = pos < hostile ? gen_coord(r, k, s.order[d], cl, 0.05) : k[0] + (k.back() - k[0]) * r.U(); }
			else xv[d] = (pos < hostile || r.coin(0.2)) ? hostile_coord(r, k) : k[0] + (k.back() - k[0]) * r.U();
			if (std::isnan(xv[d])) anynan = true;
		}
		Exact<double> x(xv); Exact<int> c(nd);
		for (int d = 0; d < nd; d++) c.p[d] = 0x7fffffff;
		phasef("searchcenters x=" + jarrd(xv));
		bool ok = T.searchcenters(x.p, c.p);
		count("vectors"); if (anynan) count("vectors-with-NaN");
		uint64_t h = s.hash(); for (double v : xv) h = hash_d(h, v); distinct(h);
		if (anynan && ok) count("NaN-vectors-accepted-by-lookup");
		phase("operator()"); sink = T(x.p); sink = Ef(x.p, 0); sink = Ed(x.p, (int)r.below(1u << nd));
		if (!ok) { count("vectors-lookup-failed"); continue; }
		count("vectors-evaluated");
		for (int d = 0; d < nd; d++) if (c.p[d] < (int)s.order[d] || c.p[d] > (int)s.knots[d].size() - (int)s.order[d] - 2) { viol("C05:searchcenters:center-outside-supported-range", pt_json(s, xv, std::vector<int>(c.p, c.p + nd))); }
		int masks[3] = {0, (int)r.below(1u << nd), (int)((1u << nd) - 1)};
		for (int m : masks) {
			phasef("ndsplineeval mask=" + std::to_string(m) + " x=" + jarrd(xv));
			sink = T.ndsplineeval<float>(x.p, c.p, m); sink = T.ndsplineeval<double>(x.p, c.p, m);
			sink = Ef.ndsplineeval(x.p, c.p, m); sink = Ed.ndsplineeval(x.p, c.p, m);
			if (C.ok) sink = ::ndsplineeval(&C.h, x.p, c.p, m);
		}
		{
			Exact<double> gr(nd + 1);
			phasef("ndsplineeval_gradient x=" + jarrd(xv));
			bool threw = false;
			try { T.ndsplineeval_gradient<float>(x.p, c.p, gr.p); } catch (std::exception &) { threw = true; }
			bool threw2 = false; try { T.ndsplineeval_gradient<double>(x.p, c.p, gr.p); } catch (std::exception &) { threw2 = true; }
			bool threw3 = false; try { Ef.ndsplineeval_gradient(x.p, c.p, gr.p); Ed.ndsplineeval_gradient(x.p, c.p, gr.p); } catch (std::exception &) { threw3 = true; }
			if (nd + 1 > PHOTOSPLINE_MAXDIM) { count("gradient-refusals-checked"); if (!threw || !threw2 || !threw3) viol("C05:ndsplineeval_gradient:unsupported-dimension-not-refused", pt_json(s, xv, std::vector<int>(c.p, c.p + nd))); }
			else { if (threw || threw2 || threw3) viol("C05:ndsplineeval_gradient:threw-on-supported-dimension", pt_json(s, xv, std::vector<int>(c.p, c.p + nd))); if (C.ok) ::ndsplineeval_gradient(&C.h, x.p, c.p, gr.p); }
		}
		{
			std::vector<unsigned> dv(nd); for (int d = 0; d < nd; d++) dv[d] = (unsigned)r.below(s.order[d] + 3);
			Exact<unsigned> de(dv);
			phasef("ndsplineeval_deriv ders=" + jarr(dv) + " x=" + jarrd(xv));
			sink = T.ndsplineeval_deriv(x.p, c.p, de.p); sink = Ef.ndsplineeval_deriv(x.p, c.p, de.p); sink = Ed.ndsplineeval_deriv(x.p, c.p, de.p);
			sink = T.ndsplineeval_deriv(x.p, c.p, nullptr);
			if (C.ok) sink = ::ndsplineeval_deriv(&C.h, x.p, c.p, de.p);
		}
	}
	(void)sink;
	sample("{\"table\":" + s.brief() + ",\"vectors\":" + std::to_string(npts) + ",\"last_vector\":" + jarrd(xv) + "}");
}

int main(int argc, char **argv) {
	Args a = parse_args(argc, argv);
	open_out(a.outpath);
	if (a.prop == "C01" || a.prop == "C02") { std::string why; if (!ref_selfcheck(why)) { fprintf(stderr, "reference self-check failed: %s\n", why.c_str()); return 2; } }
	for (long cs = a.from; cs < a.to; cs++) {
		begin_case(cs);
		if (a.prop == "C01") run_C01(a, cs);
		else if (a.prop == "C02") run_C02(a, cs);
		else if (a.prop == "C03") run_C03(a, cs);
		else if (a.prop == "C04") run_C04(a, cs);
		else if (a.prop == "C05") run_C05(a, cs);
		else { fprintf(stderr, "unknown property %s\n", a.prop.c_str()); return 2; }
	}
	finish();
	return 0;
}
