// h_fit.cpp - C09 (unconstrained fit = minimiser of the penalised objective), C10 (monotonic fit),
// C13 (fit rejects inconsistent arguments instead of corrupting memory).
#include "vf_ref.h"
#include <photospline/cinter/splinetable.h>
#include <dlfcn.h>
#include <pthread.h>

using namespace vf;
typedef photospline::splinetable<> Table;
using photospline::detail::array_view;

// count thread creations (evidence that monotonic fits reached the parallel line search)
static long g_thread_creates = 0;
extern "C" int pthread_create(pthread_t *t, const pthread_attr_t *a, void *(*fn)(void *), void *arg) {
	static auto real = (int (*)(pthread_t *, const pthread_attr_t *, void *(*)(void *), void *))dlsym(RTLD_NEXT, "pthread_create");
	__sync_fetch_and_add(&g_thread_creates, 1);
	return real(t, a, fn, arg);
}

// half-open Cox-de Boor value (the convention of the fitter)
static LD Bh_open(const std::vector<double> &k, int i, int p, LD x);
// basis value the way a table evaluates it: half-open intervals, except that on the closing knot the limit from the left is taken (the point belongs to the table's range)
static LD Bh(const std::vector<double> &k, int i, int p, LD x) { if (x == (LD)k.back() && k.front() < k.back()) x = (LD)std::nextafter(k.back(), k.front()); return Bh_open(k, i, p, x); }
static LD Bh_open(const std::vector<double> &k, int i, int p, LD x) {
	if (p == 0) return (x >= k[i] && x < k[i + 1]) ? 1 : 0;
	LD d1 = (LD)k[i + p] - k[i], d2 = (LD)k[i + p + 1] - k[i + 1];
	LD a = d1 != 0 ? (x - k[i]) / d1 * Bh(k, i, p - 1, x) : 0, b = d2 != 0 ? ((LD)k[i + p + 1] - x) / d2 * Bh(k, i + 1, p - 1, x) : 0;
	return a + b;
}
// B-spline-coefficient map of the p-th derivative: rows n-p, cols n
static std::vector<std::vector<LD>> Dmat(const std::vector<double> &k, int o, int p, int n) {
	std::vector<std::vector<LD>> D(n, std::vector<LD>(n, 0)); for (int i = 0; i < n; i++) D[i][i] = 1; int rows = n;
	for (int q = 1; q <= p; q++) {
		std::vector<std::vector<LD>> E(rows - 1, std::vector<LD>(n, 0));
		for (int r = 0; r < rows - 1; r++) { int i = r + q; LD den = (LD)k[i + o - q + 1] - k[i]; LD f = (o - q + 1) / den; for (int c = 0; c < n; c++) E[r][c] = f * (D[r + 1][c] - D[r][c]); }
		D = E; rows--;
	}
	return D;
}

struct Problem {
	int nd; std::vector<uint32_t> ord, por; std::vector<std::vector<double>> kn, co; std::vector<int> n; std::vector<double> lam;
	std::vector<std::vector<unsigned>> idx; std::vector<double> y, w; size_t ntot; std::string kind; int shared_form = 0; // 0: smoothing and penalty order per dimension, 1: both as one shared entry, 2: only the smoothing shared, 3: only the penalty order shared
	bool shared_lam() const { return shared_form == 1 || shared_form == 2; } bool shared_por() const { return shared_form == 1 || shared_form == 3; }
};
static std::string prob_brief(const Problem &p) {
	std::string s = "{\"ndim\":" + std::to_string(p.nd) + ",\"order\":" + jarr(p.ord) + ",\"penaltyOrder\":" + jarr(p.por) + ",\"smoothing\":" + jarrd(p.lam) + ",\"ncoef\":" + std::to_string(p.ntot) + ",\"ndata\":" + std::to_string(p.idx.size()) + ",\"kind\":" + jstr(p.kind) + "}";
	return s;
}
static Problem gen_problem(Rng &r, int maxdim, size_t maxcoef, bool mono) {
	Problem p;
	for (int attempt = 0; attempt < 100; attempt++) {
		p = Problem(); p.nd = r.range(1, maxdim); p.ntot = 1; size_t npt = 1; bool ok = true;
		{ double u = r.U(); p.shared_form = u < 0.2 ? 1 : u < 0.35 ? 2 : u < 0.5 ? 3 : 0; }
		for (int d = 0; d < p.nd; d++) {
			uint32_t o = mono ? (uint32_t)r.range(1, 4) : (uint32_t)r.below(5);
			uint32_t po = (uint32_t)r.below(o + 1);
			int nk = 2 * o + 2 + (int)r.below(p.nd >= 3 ? 4 : 8);
			std::vector<double> k = gen_knots(r, o, nk, r.coin(0.3) ? 0 : 1, 1.0, r.U() * 4 - 2, true);
			int nax = nk - o - 1; p.ntot *= nax; if (p.ntot > maxcoef) { ok = false; break; }
			int np = nax + 2 + (int)r.below(2 * nax + 4); if (p.nd >= 3) np = nax + 1 + (int)r.below(nax);
			std::vector<double> c;
			for (int i = 0; i < np; i++) c.push_back(k[0] + (k.back() - k[0]) * (0.002 + 0.996 * (i + r.U() * 0.9) / np));
			if (r.coin(0.2)) c[r.below(np)] = k[1 + r.below(nk - 2)]; // an abscissa exactly on an interior knot
			if (r.coin(0.12)) c[r.below(np)] = k[nk - 1];               // ... and one on the closing knot of the range, where the table evaluates to its limit from the left
			if (r.coin(0.5)) for (int i = np - 1; i > 0; i--) std::swap(c[i], c[r.below(i + 1)]);    // unsorted abscissae
			npt *= np; if (npt > 60000) { ok = false; break; }
			p.ord.push_back(o); p.por.push_back(po); p.kn.push_back(k); p.co.push_back(c); p.n.push_back(nax);
			p.lam.push_back(r.coin(0.25) ? 0.0 : std::pow(10.0, (double)r.range(-6, 6)));
		}
		if (!ok) continue;
		if (p.shared_lam()) for (int d = 1; d < p.nd; d++) p.lam[d] = p.lam[0];
		if (p.shared_por()) { uint32_t m = p.por[0]; for (int d = 0; d < p.nd; d++) m = std::min(m, p.ord[d]); for (auto &q : p.por) q = m; }
		bool sparse = r.coin(0.5); double keep = sparse ? 0.3 + 0.4 * r.U() : 1.0;
		std::vector<unsigned> I(p.nd, 0);
		for (size_t lin = 0; lin < npt; lin++) { size_t q = lin; for (int d = p.nd - 1; d >= 0; d--) { I[d] = (unsigned)(q % p.co[d].size()); q /= p.co[d].size(); } if (sparse && !r.coin(keep)) continue; p.idx.push_back(I); }
		if (p.idx.size() < p.ntot + 2) continue;
		p.kind = std::string(sparse ? "sparse" : "dense");
		return p;
	}
	p = Problem(); p.nd = 1; p.ord = {2}; p.por = {1}; p.kn = {{0, 1, 2, 3, 4, 5, 6, 7}}; p.n = {5}; p.ntot = 5; p.lam = {0.1};
	p.co = {{}}; for (int i = 0; i < 20; i++) { p.co[0].push_back(0.1 + 0.34 * i); p.idx.push_back({(unsigned)i}); } p.kind = "fallback";
	return p;
}
static void fill_data(Rng &r, Problem &p, int ykind, const std::vector<float> *gen_coef = nullptr) {
	p.y.clear(); p.w.clear();
	for (auto &I : p.idx) {
		double v = 0;
		if (ykind == 0) { for (int d = 0; d < p.nd; d++) v += std::sin(p.co[d][I[d]] * (d + 1)); v += 0.3 * r.U(); }
		else if (ykind == 1 && gen_coef) { // data sampled from a spline on the same knots
			LD s = 0; std::vector<int> j(p.nd, 0);
			// sum over all coefficients (small tables)
			for (size_t a = 0; a < p.ntot; a++) { size_t q = a; LD b = 1; for (int d = p.nd - 1; d >= 0; d--) { b *= Bh(p.kn[d], (int)(q % p.n[d]), p.ord[d], p.co[d][I[d]]); q /= p.n[d]; } s += b * (*gen_coef)[a]; }
			v = (double)s;
		} else if (ykind == 2) { // tensor polynomial of degree < penalty order in every dimension
			v = 1; for (int d = 0; d < p.nd; d++) { double x = p.co[d][I[d]], t = 0.7; for (uint32_t e = 1; e < p.por[d]; e++) t += (0.3 + 0.1 * e) * std::pow(x, (double)e); v *= t; }
		} else v = r.normal();
		p.y.push_back(v); p.w.push_back(std::pow(10.0, r.U() * 6 - 3));
	}
}
// 2-norm condition estimate of a dense symmetric positive definite matrix: Cholesky in long double, lambda_min by inverse power iteration,
// lambda_max by power iteration; returns +inf if the matrix is not positive definite in long double
static double cond_estimate(const std::vector<LD> &Hin, size_t nt) {
	std::vector<LD> L(Hin);
	for (size_t j = 0; j < nt; j++) { LD sv = L[j * nt + j]; for (size_t k = 0; k < j; k++) sv -= L[j * nt + k] * L[j * nt + k]; if (!(sv > 0)) return INFINITY; LD l = sqrtl(sv); L[j * nt + j] = l; for (size_t i = j + 1; i < nt; i++) { LD t = L[i * nt + j]; for (size_t k = 0; k < j; k++) t -= L[i * nt + k] * L[j * nt + k]; L[i * nt + j] = t / l; } }
	std::vector<LD> v(nt), w(nt); for (size_t i = 0; i < nt; i++) v[i] = 1.0L + 0.37L * (LD)((i * 7919) % 13);
	LD lmin_inv = 0, lmax = 0;
	for (int it = 0; it < 25; it++) { // inverse iteration: solve L L' w = v
		LD nv = 0; for (LD q : v) nv += q * q; nv = sqrtl(nv); for (auto &q : v) q /= nv;
		for (size_t i = 0; i < nt; i++) { LD t = v[i]; for (size_t k = 0; k < i; k++) t -= L[i * nt + k] * w[k]; w[i] = t / L[i * nt + i]; }
		for (size_t i = nt; i-- > 0;) { LD t = w[i]; for (size_t k = i + 1; k < nt; k++) t -= L[k * nt + i] * w[k]; w[i] = t / L[i * nt + i]; }
		LD nw = 0; for (LD q : w) nw += q * q; lmin_inv = sqrtl(nw); v = w;
	}
	for (size_t i = 0; i < nt; i++) v[i] = 1.0L + 0.11L * (LD)((i * 104729) % 7);
	for (int it = 0; it < 25; it++) { LD nv = 0; for (LD q : v) nv += q * q; nv = sqrtl(nv); for (auto &q : v) q /= nv; for (size_t i = 0; i < nt; i++) { LD t = 0; for (size_t k = 0; k < nt; k++) t += Hin[i * nt + k] * v[k]; w[i] = t; } LD nw = 0; for (LD q : w) nw += q * q; lmax = sqrtl(nw); v = w; }
	return (double)(lmax * lmin_inv);
}
struct Oracle { std::vector<LD> H, r; bool pd = false; double pivot_ratio = 0; };
static Oracle build_oracle(const Problem &p) {
	Oracle o; size_t nt = p.ntot; o.H.assign(nt * nt, 0); o.r.assign(nt, 0);
	std::vector<std::vector<std::vector<LD>>> bas(p.nd);
	for (int d = 0; d < p.nd; d++) { bas[d].resize(p.co[d].size()); for (size_t q = 0; q < p.co[d].size(); q++) { bas[d][q].resize(p.n[d]); for (int i = 0; i < p.n[d]; i++) bas[d][q][i] = Bh(p.kn[d], i, p.ord[d], p.co[d][q]); } }
	std::vector<LD> row(nt); std::vector<size_t> nzv;
	for (size_t k = 0; k < p.idx.size(); k++) {
		nzv.clear();
		for (size_t a = 0; a < nt; a++) { size_t q = a; LD v = 1; for (int d = p.nd - 1; d >= 0; d--) { v *= bas[d][p.idx[k][d]][q % p.n[d]]; q /= p.n[d]; if (v == 0) break; } row[a] = v; if (v != 0) nzv.push_back(a); }
		for (size_t a : nzv) { o.r[a] += (LD)p.w[k] * p.y[k] * row[a]; for (size_t b : nzv) o.H[a * nt + b] += (LD)p.w[k] * row[a] * row[b]; }
	}
	for (int d = 0; d < p.nd; d++) {
		if (p.lam[d] == 0 || p.por[d] > p.ord[d] || (int)p.por[d] >= p.n[d]) continue;
		auto D = Dmat(p.kn[d], p.ord[d], p.por[d], p.n[d]); int rows = (int)D.size(); int nn = p.n[d];
		std::vector<LD> P(nn * nn, 0); for (int a = 0; a < nn; a++) for (int b = 0; b < nn; b++) { LD s = 0; for (int q = 0; q < rows; q++) s += D[q][a] * D[q][b]; P[a * nn + b] = s; }
		size_t inner = 1; for (int e = d + 1; e < p.nd; e++) inner *= p.n[e];
		for (size_t a = 0; a < nt; a++) { int ia = (int)((a / inner) % nn); size_t base = a - (size_t)ia * inner; for (int ib = 0; ib < nn; ib++) { size_t b = base + (size_t)ib * inner; o.H[a * nt + b] += (LD)p.lam[d] * P[ia * nn + ib]; } }
	}
	// positive definiteness / conditioning filter: long-double Cholesky pivots
	std::vector<LD> L(o.H); LD dmax = 0, pmin = 1e300L; o.pd = true;
	for (size_t j = 0; j < nt && o.pd; j++) {
		dmax = std::max(dmax, o.H[j * nt + j]);
		LD s = L[j * nt + j]; for (size_t k = 0; k < j; k++) s -= L[j * nt + k] * L[j * nt + k];
		if (!(s > 0)) { o.pd = false; break; }
		pmin = std::min(pmin, s); LD l = sqrtl(s); L[j * nt + j] = l;
		for (size_t i = j + 1; i < nt; i++) { LD t = L[i * nt + j]; for (size_t k = 0; k < j; k++) t -= L[i * nt + k] * L[j * nt + k]; L[i * nt + j] = t / l; }
	}
	o.pivot_ratio = o.pd && dmax > 0 ? (double)(pmin / dmax) : 0;
	return o;
}
// worst component of |Hc - r| / (2^-24 (|H||c| + |r|))
static double backward_ratio(const Oracle &o, const float *c, size_t nt, bool &nanc, size_t &worst_i) {
	double ratio = 0; nanc = false; worst_i = 0;
	for (size_t a = 0; a < nt; a++) {
		if (!std::isfinite(c[a])) { nanc = true; continue; }
		LD g = -o.r[a], mag = fabsl(o.r[a]);
		// (a float carries 2^-24 relative precision only down to FLT_MIN; below it - and a coefficient that underflows to zero - the error is absolute, half a subnormal step)
		for (size_t b = 0; b < nt; b++) { if (o.H[a * nt + b] == 0) continue; g += o.H[a * nt + b] * c[b]; mag += fabsl(o.H[a * nt + b]) * std::max((LD)fabsl((LD)c[b]), (LD)1.17549435e-38L); }
		if (mag > 0) { double q = (double)(fabsl(g) / (ldexpl(1, -24) * mag)); if (q > ratio) { ratio = q; worst_i = a; } }
	}
	return ratio;
}
static photospline::ndsparse *make_data(const Problem &p, const std::vector<size_t> *perm = nullptr) {
	photospline::ndsparse *d = new photospline::ndsparse(p.idx.size(), p.nd);
	for (size_t i = 0; i < p.idx.size(); i++) { size_t k = perm ? (*perm)[i] : i; std::vector<unsigned> I = p.idx[k]; d->insertEntry(p.y[k], I.data()); }
	for (int dd = 0; dd < p.nd; dd++) d->ranges[dd] = (unsigned)p.co[dd].size();
	return d;
}
static const double K_BOUND = 8.0;

// ================================================================ C09big: tables with more than 2^16 coefficients (flattened matrix indices beyond 2^32)
// The dense oracle is out of reach there; the normal-equation residual B'W(y - Bc) - sum_d lambda_d P_d c is applied matrix-free, dimension by dimension
// (data on the full grid), in long double, together with the magnitude |B|'W(|y| + |B||c|) + sum_d lambda_d |P_d||c| that scales the bound.
static void mode_apply(const std::vector<LD> &M, size_t rows, size_t cols, const std::vector<LD> &in, const std::vector<size_t> &dims, int d, std::vector<LD> &outv, std::vector<size_t> &odims) {
	// out[..., r, ...] = sum_c M[r*cols + c] in[..., c, ...] along dimension d (dims[d] == cols)
	odims = dims; odims[d] = rows; size_t inner = 1; for (size_t e = d + 1; e < dims.size(); e++) inner *= dims[e]; size_t outer = 1; for (int e = 0; e < d; e++) outer *= dims[e];
	outv.assign(outer * rows * inner, 0);
	for (size_t o = 0; o < outer; o++) for (size_t rr = 0; rr < rows; rr++) { LD *dst = &outv[(o * rows + rr) * inner]; for (size_t c = 0; c < cols; c++) { LD m = M[rr * cols + c]; if (m == 0) continue; const LD *src = &in[(o * cols + c) * inner]; for (size_t i = 0; i < inner; i++) dst[i] += m * src[i]; } }
}
static void run_C09big(const Args &a, long cs) {
	Rng r(a.seed, "C09big", cs);
	Problem p; p.nd = (cs % 3 == 2) ? 3 : 2; p.ntot = 1; p.kind = "large-grid";
	// axis lengths: product just above 2^16, axes unequal
	std::vector<int> nax = p.nd == 2 ? std::vector<int>{200 + (int)r.below(120), 0} : std::vector<int>{36 + (int)r.below(10), 38 + (int)r.below(8), 0};
	{ size_t prod = 1; for (int d = 0; d + 1 < p.nd; d++) prod *= nax[d]; nax[p.nd - 1] = (int)((65536 + 200 + r.below(6000)) / prod) + 1; }
	for (int d = 0; d < p.nd; d++) {
		uint32_t o = (uint32_t)r.below(3); int n = nax[d]; int nk = n + o + 1;
		std::vector<double> k(nk); double x = -1.0 + r.U(); for (int i = 0; i < nk; i++) { k[i] = x; x += 0.6 + 0.8 * r.U(); }
		p.ord.push_back(o); p.kn.push_back(k); p.n.push_back(n); p.ntot *= (size_t)n; p.por.push_back((uint32_t)r.below(o + 1)); p.lam.push_back(r.coin(0.4) ? 0.0 : std::pow(10.0, (double)r.range(-4, 0)));
		// abscissae: one per coefficient (Greville-like, jittered) plus a few more, all inside the knot range; unsorted
		int np = n + 1 + (int)r.below(6); std::vector<double> c(np); double lo = k[0], hi = k[nk - 1];
		for (int i = 0; i < np; i++) { double g = 0; if (i < n) { for (uint32_t j = 1; j <= std::max(1u, o); j++) g += k[i + j]; g /= std::max(1u, o); if (o == 0) g = 0.5 * (k[i] + k[i + 1]); g += 0.05 * (r.U() - 0.5); } else g = lo + (hi - lo) * r.U(); c[i] = std::min(std::max(g, lo + 1e-9), hi - 1e-9); }
		for (int i = np - 1; i > 0; i--) std::swap(c[i], c[r.below(i + 1)]);
		p.co.push_back(c);
	}
	count("large-problems"); count("large:ndim:" + std::to_string(p.nd)); count("large:coefficients", (long)p.ntot);
	size_t npt = 1; std::vector<size_t> gd(p.nd), cd(p.nd); for (int d = 0; d < p.nd; d++) { gd[d] = p.co[d].size(); cd[d] = (size_t)p.n[d]; npt *= gd[d]; }
	// data on the full grid
	std::vector<LD> y(npt), w(npt); p.idx.reserve(npt); std::vector<unsigned> I(p.nd, 0);
	for (size_t lin = 0; lin < npt; lin++) { size_t q = lin; for (int d = p.nd - 1; d >= 0; d--) { I[d] = (unsigned)(q % gd[d]); q /= gd[d]; } double v = 0; for (int d = 0; d < p.nd; d++) v += std::sin(0.05 * p.co[d][I[d]] * (d + 1)); v += 0.1 * r.U(); p.idx.push_back(I); p.y.push_back(v); double ww = 0.5 + 1.5 * r.U(); p.w.push_back(ww); y[lin] = v; w[lin] = ww; }
	std::string pj = prob_brief(p); context(pj);
	photospline::ndsparse *data = make_data(p);
	Table T; bool ok = true; phase_log("fit (large table)");
	try { T.fit(*data, p.w, p.co, p.ord, p.kn, p.lam, p.por, Table::no_monodim, false); } catch (std::exception &e) { ok = false; viol("C09:fit(large):threw-on-well-posed-problem", "{\"what\":" + jstr(e.what()) + ",\"problem\":" + pj + "}"); }
	delete data;
	if (!ok) return;
	if (T.get_ncoeffs() != p.ntot) { viol("C09:fit(large):wrong-number-of-coefficients", pj); return; }
	const float *cf = T.get_coefficients();
	size_t nbad = 0; for (size_t i = 0; i < p.ntot; i++) if (!std::isfinite(cf[i])) nbad++;
	if (nbad) { viol("C09:fit(large):non-finite-coefficients-on-well-posed-problem", "{\"non_finite\":" + std::to_string(nbad) + ",\"problem\":" + pj + "}"); return; }
	phase_log("matrix-free normal-equation residual");
	// per-dimension basis matrices (grid x coefficients) and their absolute values
	std::vector<std::vector<LD>> B(p.nd), Bt(p.nd);
	for (int d = 0; d < p.nd; d++) { B[d].assign(gd[d] * cd[d], 0); Bt[d].assign(cd[d] * gd[d], 0); for (size_t q = 0; q < gd[d]; q++) for (size_t i = 0; i < cd[d]; i++) { LD v = Bh(p.kn[d], (int)i, p.ord[d], p.co[d][q]); B[d][q * cd[d] + i] = v; Bt[d][i * gd[d] + q] = v; } }
	std::vector<LD> c(p.ntot), ca(p.ntot); for (size_t i = 0; i < p.ntot; i++) { c[i] = cf[i]; ca[i] = std::max((LD)fabsl(c[i]), (LD)1.17549435e-38L); /* (below FLT_MIN the precision of a float is absolute) */ }
	auto chain = [&](const std::vector<std::vector<LD>> &Ms, const std::vector<size_t> &rows, const std::vector<size_t> &cols, std::vector<LD> v, std::vector<size_t> dims) { for (int d = 0; d < p.nd; d++) { std::vector<LD> o2; std::vector<size_t> od; mode_apply(Ms[d], rows[d], cols[d], v, dims, d, o2, od); v.swap(o2); dims = od; } return v; };
	std::vector<LD> yh = chain(B, gd, cd, c, cd), yha = chain(B, gd, cd, ca, cd); // basis values are non-negative: |B| = B
	std::vector<LD> res(npt), resa(npt); for (size_t i = 0; i < npt; i++) { res[i] = w[i] * (y[i] - yh[i]); resa[i] = w[i] * (fabsl(y[i]) + yha[i]); }
	std::vector<LD> g = chain(Bt, cd, gd, res, gd), ga = chain(Bt, cd, gd, resa, gd);
	for (int d = 0; d < p.nd; d++) {
		if (p.lam[d] == 0 || p.por[d] > p.ord[d] || (int)p.por[d] >= p.n[d]) continue;
		auto D = Dmat(p.kn[d], p.ord[d], p.por[d], p.n[d]); int rows = (int)D.size(); size_t nn = cd[d];
		std::vector<LD> P(nn * nn, 0), Pa(nn * nn, 0); for (size_t x = 0; x < nn; x++) for (size_t z = 0; z < nn; z++) { LD sv = 0; for (int q = 0; q < rows; q++) sv += D[q][x] * D[q][z]; P[x * nn + z] = sv; Pa[x * nn + z] = fabsl(sv); }
		std::vector<LD> t, ta; std::vector<size_t> od; mode_apply(P, nn, nn, c, cd, d, t, od); mode_apply(Pa, nn, nn, ca, cd, d, ta, od);
		for (size_t i = 0; i < p.ntot; i++) { g[i] -= (LD)p.lam[d] * t[i]; ga[i] += (LD)p.lam[d] * ta[i]; }
	}
	double ratio = 0; size_t wi = 0; for (size_t i = 0; i < p.ntot; i++) if (ga[i] > 0) { double q = (double)(fabsl(g[i]) / (ldexpl(1, -24) * ga[i])); if (q > ratio) { ratio = q; wi = i; } }
	count("large:residual-checks"); out().counters["max-large:backward-ratio-x1000"] = std::max(out().counters["max-large:backward-ratio-x1000"], (long)(ratio * 1000));
	distinct(hash_mix(hash_mix(99, p.ntot), (uint64_t)(cf[p.ntot / 2] * 1e6)));
	if (ratio > K_BOUND) viol("C09:fit(large):normal-equation-residual-above-bound", "{\"ratio\":" + jnum(ratio) + ",\"bound\":" + jnum(K_BOUND) + ",\"worst_coefficient\":" + std::to_string(wi) + ",\"problem\":" + pj + "}");
	sample("{\"problem\":" + pj + ",\"backward_ratio\":" + jnum(ratio) + "}");
}

// ================================================================ C09
static void run_C09(const Args &a, long cs) {
	Rng r(a.seed, "C09", cs);
	size_t maxcoef = a.tier == "thorough" ? 1200 : 350;
	Problem p = gen_problem(r, 4, maxcoef, false);
	int ykind = (int)r.below(4);
	std::vector<float> gen_coef;
	if (ykind == 1) { if (p.ntot > 150) ykind = 0; else { gen_coef.resize(p.ntot); for (auto &c : gen_coef) c = (float)(r.U() * 2 - 1); for (auto &l : p.lam) l = 0; } }
	if (ykind == 2) for (int d = 0; d < p.nd; d++) if (p.por[d] == 0 && p.lam[d] > 0) ykind = 0; // a zeroth-order (ridge) penalty has no polynomial null space
	if (ykind == 2) for (int d = 0; d < p.nd; d++) { // splines reproduce polynomials only inside full support: move the abscissae there
		const auto &k = p.kn[d]; double lo = k[p.ord[d]], hi = k[k.size() - 1 - p.ord[d]], a0 = k[0], a1 = k.back();
		for (auto &x : p.co[d]) { x = lo + (hi - lo) * (x - a0) / (a1 - a0) * 0.999; }
	}
	fill_data(r, p, ykind, ykind == 1 ? &gen_coef : nullptr);
	// units: the minimiser is linear in the data and unchanged when weights and smoothing strengths are multiplied by a common factor, so the same problem with
	// data in units of 1e-24 ... 1e18 or with tiny / huge weights must be solved as well (the oracle's backward-error test is relative throughout)
	if (ykind == 0 || ykind == 3) {
		if (r.coin(0.3)) { static const double ys[] = {1e-24, 1e-18, 1e-12, 1e-6, 1e6, 1e12, 1e18}; double u = ys[r.below(7)]; for (auto &v : p.y) v *= u; char b[32]; snprintf(b, sizeof b, "%g", u); count(std::string("data-unit:") + b); p.kind += std::string("/data-unit:") + b; }
		if (r.coin(0.25)) { static const double ws[] = {1e-18, 1e-12, 1e-6, 1e6, 1e12}; double u = ws[r.below(5)]; for (auto &v : p.w) v *= u; for (auto &l : p.lam) l *= u; char b[32]; snprintf(b, sizeof b, "%g", u); count(std::string("weight-unit:") + b); p.kind += std::string("/weight-unit:") + b; }
	}
	p.kind += ykind == 0 ? "/sin+noise" : ykind == 1 ? "/from-spline(lambda=0)" : ykind == 2 ? "/polynomial<penaltyOrder" : "/gaussian-noise";
	Oracle o = build_oracle(p);
	count("problems"); count("ndim:" + std::to_string(p.nd)); count("ykind:" + std::to_string(ykind)); for (int d = 0; d < p.nd; d++) { count("order:" + std::to_string(p.ord[d])); count("penaltyOrder:" + std::to_string(p.por[d])); if (p.lam[d] == 0) count("dims-with-zero-smoothing"); }
	if (!o.pd || o.pivot_ratio < 1e-9) { count("problems-skipped(ill-posed)"); return; }
	{ double kappa = cond_estimate(o.H, p.ntot); if (!(kappa < 1e11)) { count("problems-skipped(condition>1e11)"); return; } count(kappa < 1e4 ? "condition:<1e4" : kappa < 1e8 ? "condition:<1e8" : "condition:<1e11"); }
	count("problems-well-posed");
	uint64_t h = hash_mix(9, p.ntot); for (double v : p.y) h = hash_d(h, v); for (int d = 0; d < p.nd; d++) for (double k : p.kn[d]) h = hash_d(h, k);
	std::vector<double> lam = p.lam; std::vector<uint32_t> por = p.por;
	if (p.shared_lam()) lam.resize(1); if (p.shared_por()) por.resize(1); count("argument-form:" + std::string(p.shared_form == 0 ? "per-dimension" : p.shared_form == 1 ? "both-shared" : p.shared_form == 2 ? "smoothing-shared,penalty-order-per-dimension" : "smoothing-per-dimension,penalty-order-shared"));
	for (int variant = 0; variant < 3; variant++) {
		const char *vn[] = {"fit", "fit(permuted+zero-weight-entries)", "C:splinetable_glamfit"};
		Problem q = p; std::vector<size_t> perm(p.idx.size()); for (size_t i = 0; i < perm.size(); i++) perm[i] = i;
		std::vector<double> w = p.w;
		if (variant == 1) {
			// zero-weight entries with arbitrary values at arbitrary grid cells, then shuffle the listing order
			size_t extra = 1 + r.below(10);
			for (size_t e = 0; e < extra; e++) { std::vector<unsigned> I(p.nd); for (int d = 0; d < p.nd; d++) I[d] = (unsigned)r.below(p.co[d].size()); q.idx.push_back(I); double junk = (r.U() - 0.5) * 1e6; if (r.coin(0.3)) { static const double nf[] = {NAN, INFINITY, -INFINITY, 1e300}; junk = nf[r.below(4)]; } q.y.push_back(junk); w.push_back(0.0); }
			perm.resize(q.idx.size()); for (size_t i = 0; i < perm.size(); i++) perm[i] = i;
			for (size_t i = perm.size() - 1; i > 0; i--) std::swap(perm[i], perm[r.below(i + 1)]);
		}
		photospline::ndsparse *data = make_data(q, &perm);
		std::vector<double> wp(perm.size()); for (size_t i = 0; i < perm.size(); i++) wp[i] = w[perm[i]];
		Table T; splinetable hnd; hnd.data = nullptr; const float *c = nullptr; bool ok = true;
		phase_log(vn[variant]);
		if (variant < 2) { try { T.fit(*data, wp, p.co, p.ord, p.kn, lam, por, Table::no_monodim, false); c = T.get_coefficients(); } catch (std::exception &e) { ok = false; viol(std::string("C09:") + vn[variant] + ":threw-on-well-posed-problem", "{\"what\":" + jstr(e.what()) + ",\"problem\":" + prob_brief(p) + "}"); } }
		else {
			splinetable_init(&hnd); std::vector<const double *> cp, kp; std::vector<uint64_t> nk;
			for (int d = 0; d < p.nd; d++) { cp.push_back(p.co[d].data()); kp.push_back(p.kn[d].data()); nk.push_back(p.kn[d].size()); }
			std::vector<double> lamf = p.lam; std::vector<uint32_t> porf = p.por;
			int rc = splinetable_glamfit(&hnd, data, wp.data(), cp.data(), p.ord.data(), kp.data(), nk.data(), lamf.data(), porf.data(), PHOTOSPLINE_GLAM_NO_MONODIM, false);
			if (rc != 0) { ok = false; viol("C09:C:splinetable_glamfit:failed-on-well-posed-problem", prob_brief(p)); } else c = splinetable_coefficients(&hnd);
		}
		if (ok) {
			bool nanc; size_t wi; double ratio = backward_ratio(o, c, p.ntot, nanc, wi);
			count(std::string("fits:") + vn[variant]); distinct(hash_mix(h, variant));
			if (a.verbose && ratio > K_BOUND) {
				fprintf(stderr, "C09 case %ld variant %s: ratio %g at component %zu\n", cs, vn[variant], ratio, wi);
				for (int d = 0; d < p.nd; d++) { fprintf(stderr, " dim %d order %u penaltyOrder %u lambda %g knots:", d, p.ord[d], p.por[d], p.lam[d]); for (double k : p.kn[d]) fprintf(stderr, " %.17g", k); fprintf(stderr, "\n  abscissae:"); for (double x : p.co[d]) fprintf(stderr, " %.17g", x); fprintf(stderr, "\n"); }
				fprintf(stderr, " coefficients:"); for (size_t i = 0; i < p.ntot; i++) fprintf(stderr, " %g", c[i]); fprintf(stderr, "\n r:"); for (size_t i = 0; i < p.ntot; i++) fprintf(stderr, " %g", (double)o.r[i]); fprintf(stderr, "\n");
			}
			if (nanc) viol(std::string("C09:") + vn[variant] + ":non-finite-coefficients-on-well-posed-problem", prob_brief(p));
			else if (ratio > K_BOUND) viol(std::string("C09:") + vn[variant] + ":normal-equation-residual-above-bound", "{\"ratio_to_2^-24(|H||c|+|r|)\":" + jnum(ratio) + ",\"bound\":" + jnum(K_BOUND) + ",\"component\":" + std::to_string(wi) + ",\"problem\":" + prob_brief(p) + "}");
			else { count(ratio < 0.5 ? "residual-ratio<0.5" : ratio < 2 ? "residual-ratio<2" : "residual-ratio<8"); }
			if (variant == 0 && ykind == 1 && !nanc) { // reproduces the generating spline (scaled by conditioning)
				double worst = 0; for (size_t i = 0; i < p.ntot; i++) worst = std::max(worst, std::fabs((double)c[i] - gen_coef[i]));
				double tol = 64 * ldexp(1.0, -24) / std::max(1e-9, std::sqrt(o.pivot_ratio)) + 1e-5;
				count("spline-reproduction-checks");
				if (worst > tol) viol("C09:fit:does-not-reproduce-spline-data-at-zero-smoothing", "{\"max_coefficient_error\":" + jnum(worst) + ",\"tol\":" + jnum(tol) + ",\"problem\":" + prob_brief(p) + "}");
			}
			if (variant == 0 && ykind == 2 && !nanc) { // polynomial of degree < penalty order is reproduced at data points in full support
				Spec s; s.order.assign(p.ord.begin(), p.ord.end()); s.knots = p.kn; s.coef.assign(c, c + p.ntot);
				double worst = 0, ymax = 0; long checked = 0;
				for (size_t k = 0; k < p.idx.size(); k++) {
					std::vector<double> x(p.nd); bool full = true;
					for (int d = 0; d < p.nd; d++) { x[d] = p.co[d][p.idx[k][d]]; if (!(x[d] >= p.kn[d][p.ord[d]] && x[d] < p.kn[d][p.kn[d].size() - p.ord[d] - 1])) full = false; }
					ymax = std::max(ymax, std::fabs(p.y[k]));
					if (!full) continue;
					std::vector<DimBasis> bs; for (int d = 0; d < p.nd; d++) bs.push_back(ref_dim_basis(s.knots[d], s.order[d], x[d], 0, ref_piece_halfopen(s.knots[d], x[d])));
					RefVal rv = ref_eval(s, bs); worst = std::max(worst, std::fabs((double)rv.S - p.y[k])); checked++;
				}
				bool allfull = true; // polynomial reproduction needs every data point inside full support (others pull the fit)
				for (int d = 0; d < p.nd; d++) for (double x : p.co[d]) if (!(x >= p.kn[d][p.ord[d]] && x < p.kn[d][p.kn[d].size() - p.ord[d] - 1])) allfull = false;
				if (allfull && checked) { count("polynomial-reproduction-checks"); double tol = 1e-3 * (ymax + 1) / std::max(1e-4, std::sqrt(o.pivot_ratio)) * 1e-2 + 1e-4 * (ymax + 1); if (worst > tol) viol("C09:fit:polynomial-below-penalty-order-not-reproduced", "{\"max_error\":" + jnum(worst) + ",\"tol\":" + jnum(tol) + ",\"problem\":" + prob_brief(p) + "}"); }
			}
		}
		if (variant == 2) splinetable_free(&hnd);
		delete data;
	}
	if (cs % 20 == 0) sample(prob_brief(p));
}

// ================================================================ C10
static double g_unit = 1;
static void run_C10(const Args &a, long cs) {
	Rng r(a.seed, "C10", cs);
	Problem p = gen_problem(r, 3, a.tier == "thorough" ? 400 : 150, true);
	uint32_t monodim = (uint32_t)r.below(p.nd);
	int ykind = (int)r.below(12); // 10/11: steeply increasing along the monotonic dimension, modulated along the others, with / without smoothing there (constraint inactive); 6 flat zero then rise, 7 the same with a 1e-10 downward drift/ripple, 8 all zero, 9 tiny magnitudes;  0 noisy increasing, 1 decreasing, 2 oscillating, 3 constant, 4 gaussian noise, 5 generated from a monotone spline (constraint inactive)
	std::vector<float> gen_coef;
	if (ykind == 5 && p.ntot > 120) ykind = 0;
	if (ykind == 5) {
		gen_coef.resize(p.ntot); size_t inner = 1; for (int e = monodim + 1; e < p.nd; e++) inner *= p.n[e];
		for (size_t a2 = 0; a2 < p.ntot; a2++) { int j = (int)((a2 / inner) % p.n[monodim]); size_t base = a2 - (size_t)j * inner; (void)base; gen_coef[a2] = 0; }
		for (size_t a2 = 0; a2 < p.ntot; a2++) { int j = (int)((a2 / inner) % p.n[monodim]); if (j == 0) gen_coef[a2] = (float)(0.5 + r.U()); }
		for (int j = 1; j < p.n[monodim]; j++) for (size_t a2 = 0; a2 < p.ntot; a2++) if ((int)((a2 / inner) % p.n[monodim]) == j) gen_coef[a2] = gen_coef[a2 - inner] + (float)(0.2 + r.U());
		for (auto &l : p.lam) l = 0;
		fill_data(r, p, 1, &gen_coef);
		for (auto &w : p.w) w = std::pow(10.0, r.U() * 2 - 1);
	} else {
		fill_data(r, p, 3); // overwritten below
		for (size_t k = 0; k < p.idx.size(); k++) {
			double x = p.co[monodim][p.idx[k][monodim]], v;
			const auto &km = p.kn[monodim]; double xm = km[km.size() / 2], span = km.back() - km[0];
			switch (ykind) {
			case 0: v = 0.5 * x + 0.3 * r.normal() + 3; break; case 1: v = 5 - x + 0.1 * r.normal(); break; case 2: v = 2 + std::sin(3 * x) + 0.1 * r.normal(); break; case 3: v = 1.25; break;
			case 6: v = x < xm ? 0.0 : std::pow(x - xm, (double)p.ord[monodim]); break; // truncated power with the kink on a knot: exactly representable
			case 7: v = (x < xm ? 0.0 : std::pow(x - xm, (double)p.ord[monodim])) - 2e-10 * (x - km[0]) / span + 1e-11 * std::sin(40 * x); break;
			case 8: v = 0.0; break;
			case 9: v = 1e-20 * (x - km[0]) + 1e-22 * r.normal(); break;
			case 10: case 11: { static const double units[] = {1, 1, 1e-12, 1e-9, 1e-6, 1e6}; if (k == 0) g_unit = units[r.below(6)]; double m = 2 * g_unit; /* the unit of the data: the fit is linear in it */ for (int e = 0; e < p.nd; e++) if ((uint32_t)e != monodim) m *= 2 + std::sin(3 * p.co[e][p.idx[k][e]] * (e + 1)); v = (1 + 5 * (x - km[0]) / span) * m; break; }
			default: v = r.normal(); }
			if (ykind >= 6) p.w[k] = 1.0;
			p.y[k] = v;
		}
	}
	static const char *yn[] = {"noisy-increasing", "decreasing", "oscillating", "constant", "gaussian-noise", "from-monotone-spline", "zero-then-rise", "zero-then-rise+1e-10-drift", "all-zero", "tiny-magnitude", "steep-increasing-modulated(smoothing-in-other-dimensions)", "steep-increasing-modulated(no-smoothing)"};
	if (ykind == 10) { for (int e = 0; e < p.nd; e++) p.lam[e] = (uint32_t)e == monodim ? (r.coin(0.5) ? 0.0 : 1e-3) : std::pow(10.0, (double)r.range(-2, 1)); if (p.shared_lam()) for (auto &l : p.lam) l = p.lam[0]; for (auto &w : p.w) w = 1.0; }
	if (ykind == 11) { for (auto &l : p.lam) l = 0; for (auto &w : p.w) w = 1.0; }
	if (ykind >= 6 && ykind <= 7) { for (auto &l : p.lam) l = r.coin(0.7) ? 0.0 : 1e-12; if (p.shared_lam()) for (auto &l : p.lam) l = p.lam[0]; } // (a shared smoothing argument applies to every dimension)
	p.kind += std::string("/") + yn[ykind];
	count("problems"); count("ndim:" + std::to_string(p.nd)); count(std::string("data:") + yn[ykind]); count("monodim:" + std::to_string(monodim)); count("order-along-monodim:" + std::to_string(p.ord[monodim]));
	std::vector<double> lam = p.lam; std::vector<uint32_t> por = p.por; if (p.shared_lam()) lam.resize(1); if (p.shared_por()) por.resize(1);
	double pivot_T = 0;
	{ // well-posedness is judged on the system the monotonic fit actually solves: the normal matrix in the T-spline (cumulative) basis along the monotonic dimension
		Oracle o = build_oracle(p); if (!o.pd || o.pivot_ratio < 1e-9) { count("problems-skipped(normal-matrix-not-positive-definite)"); return; }
		size_t nt = p.ntot, inner = 1; for (int e = monodim + 1; e < p.nd; e++) inner *= p.n[e]; int nm = p.n[monodim];
		std::vector<LD> H = o.H;
		for (size_t col = 0; col < nt; col++) for (size_t a2 = nt; a2-- > 0;) { int j = (int)((a2 / inner) % nm); if (j + 1 < nm) H[a2 * nt + col] += H[(a2 + inner) * nt + col]; }
		for (size_t row = 0; row < nt; row++) for (size_t b2 = nt; b2-- > 0;) { int j = (int)((b2 / inner) % nm); if (j + 1 < nm) H[row * nt + b2] += H[row * nt + b2 + inner]; }
		double kappaT = cond_estimate(H, nt);
		pivot_T = kappaT < 1e6 ? 1.0 : kappaT < 1e11 ? 1e-6 : 0; // (kept as a three-level flag: well conditioned / usable / ill-posed)
		if (a.verbose) {
			fprintf(stderr, "case %ld: pivot ratio B-basis %.3g, condition estimate T-basis %.3g, ntot %zu monodim %u\n", cs, o.pivot_ratio, kappaT, nt, monodim);
			// does CHOLMOD factorise the oracle's matrix (rounded to double)?
			cholmod_common cc; cholmod_l_start(&cc); cholmod_dense *Hd = cholmod_l_allocate_dense(nt, nt, nt, CHOLMOD_REAL, &cc); for (size_t i = 0; i < nt * nt; i++) ((double *)Hd->x)[i] = (double)H[i];
			cholmod_sparse *Hs = cholmod_l_dense_to_sparse(Hd, 1, &cc); Hs->stype = 1; cholmod_sparse *Hu = cholmod_l_copy(Hs, 1, 1, &cc); cholmod_factor *Lf = cholmod_l_analyze(Hu, &cc); int okf = cholmod_l_factorize(Hu, Lf, &cc);
			fprintf(stderr, "CHOLMOD on the oracle's T-basis matrix: factorize=%d status=%d minor=%ld of %zu\n", okf, cc.status, (long)Lf->minor, nt);
			double dmin = 1e300, dmaxv = 0; for (size_t i = 0; i < nt; i++) { double v = (double)H[i * nt + i]; dmin = std::min(dmin, v); dmaxv = std::max(dmaxv, v); } fprintf(stderr, "diag range %.3g .. %.3g\n", dmin, dmaxv);
		}
		if (pivot_T < 1e-9) { count("problems-skipped(T-spline-normal-matrix-ill-conditioned)"); return; }
	}
	photospline::ndsparse *data = make_data(p);
	Table T; long tc0 = g_thread_creates;
	phase_log("fit(monodim)");
	bool viaC = cs % 5 == 4; splinetable hnd; hnd.data = nullptr; const float *c = nullptr;
	try {
		if (!viaC) { T.fit(*data, p.w, p.co, p.ord, p.kn, lam, por, monodim, getenv("VF_FIT_VERBOSE") != nullptr); c = T.get_coefficients(); }
		else {
			splinetable_init(&hnd); std::vector<const double *> cp, kp; std::vector<uint64_t> nk; for (int d = 0; d < p.nd; d++) { cp.push_back(p.co[d].data()); kp.push_back(p.kn[d].data()); nk.push_back(p.kn[d].size()); }
			std::vector<double> lamf = p.lam; std::vector<uint32_t> porf = p.por;
			if (splinetable_glamfit(&hnd, data, p.w.data(), cp.data(), p.ord.data(), kp.data(), nk.data(), lamf.data(), porf.data(), monodim, false) != 0) throw std::runtime_error("splinetable_glamfit returned non-zero");
			c = splinetable_coefficients(&hnd);
		}
	} catch (std::exception &e) { viol("C10:fit(monodim):threw", "{\"what\":" + jstr(e.what()) + ",\"problem\":" + prob_brief(p) + "}"); delete data; if (viaC) splinetable_free(&hnd); return; }
	if (g_thread_creates > tc0) count("fits-that-reached-the-parallel-line-search");
	count("monotonic-fits");
	uint64_t h = hash_mix(10, p.ntot); for (double v : p.y) h = hash_d(h, v); distinct(hash_mix(h, monodim));
	// (i) coefficients non-decreasing along monodim (exact float comparison), and non-negative
	size_t inner = 1; for (int e = monodim + 1; e < p.nd; e++) inner *= p.n[e];
	bool nan = false; for (size_t i = 0; i < p.ntot; i++) if (!std::isfinite(c[i])) nan = true;
	if (nan) { viol("C10:fit(monodim):non-finite-coefficients", prob_brief(p)); }
	else {
		long bad = 0; double worstdrop = 0;
		for (size_t a2 = 0; a2 < p.ntot; a2++) { int j = (int)((a2 / inner) % p.n[monodim]); if (j == 0) continue; if (c[a2] < c[a2 - inner]) { bad++; worstdrop = std::max(worstdrop, (double)c[a2 - inner] - c[a2]); } }
		count("coefficient-pairs-checked", (long)(p.ntot - p.ntot / p.n[monodim]));
		if (bad) viol("C10:fit(monodim):coefficients-decrease-along-monotonic-dimension", "{\"pairs\":" + std::to_string(bad) + ",\"worst_drop\":" + jnum(worstdrop) + ",\"problem\":" + prob_brief(p) + "}");
		// (ii) derivative along monodim >= -rounding at sampled points of full support (reference evaluation of the returned table)
		Spec s; s.order.assign(p.ord.begin(), p.ord.end()); s.knots = p.kn; s.coef.assign(c, c + p.ntot);
		for (int q = 0; q < 40; q++) {
			std::vector<double> x(p.nd); for (int d = 0; d < p.nd; d++) { const auto &k = p.kn[d]; unsigned o = p.ord[d]; int cl; x[d] = r.coin(0.3) ? k[o + r.below(k.size() - 2 * o - 1)] : k[o] + (k[k.size() - 1 - o] - k[o]) * r.U(); (void)cl; }
			std::vector<unsigned> ders(p.nd, 0); ders[monodim] = 1;
			RefVal rv = ref_eval_point(s, x.data(), ders.data());
			count("derivative-points-checked");
			if (!(rv.S >= -64 * ldexpl(1, -24) * rv.M)) viol("C10:fit(monodim):negative-derivative-along-monotonic-dimension", "{\"derivative\":" + jnum((double)rv.S) + ",\"M\":" + jnum((double)rv.M) + ",\"x\":" + jarrd(x) + ",\"problem\":" + prob_brief(p) + "}");
		}
		// (iii) inactive constraint => same coefficients as the unconstrained fit
		if (ykind == 5 || ykind == 10 || ykind == 11) {
			Table U; phase_log("fit(unconstrained twin)");
			try { U.fit(*data, p.w, p.co, p.ord, p.kn, lam, por, Table::no_monodim, false); } catch (std::exception &e) { note("unconstrained-twin-threw"); }
			if (U.get_ndim()) {
				const float *cu = U.get_coefficients(); bool inactive = true; double cmax = 0; double un = (ykind == 10 || ykind == 11) ? g_unit : 1.0;
				for (size_t a2 = 0; a2 < p.ntot; a2++) { cmax = std::max(cmax, (double)std::fabs(cu[a2])); int j = (int)((a2 / inner) % p.n[monodim]); if (cu[a2] < 0.05 * un || (j > 0 && cu[a2] - cu[a2 - inner] < 0.05 * un)) inactive = false; }
				if (inactive && pivot_T < 1e-4) count("inactive-comparisons-skipped(ill-conditioned)");
				else if (inactive) {
					double worst = 0; for (size_t a2 = 0; a2 < p.ntot; a2++) worst = std::max(worst, std::fabs((double)cu[a2] - c[a2]));
					count("inactive-constraint-comparisons"); if (ykind == 10) count("inactive-constraint-comparisons-with-smoothing-in-other-dimensions");
					if (un != 1) count("inactive-constraint-comparisons-in-other-units");
					if (worst > 2e-3 * (cmax + un)) viol("C10:fit(monodim):differs-from-unconstrained-fit-although-constraint-inactive", "{\"max_coefficient_difference\":" + jnum(worst) + ",\"scale\":" + jnum(cmax) + ",\"problem\":" + prob_brief(p) + "}");
				} else count("twin-not-strictly-monotone(skipped)");
			}
		}
	}
	if (viaC) splinetable_free(&hnd);
	delete data;
	if (cs % 20 == 0) sample(prob_brief(p));
}

// ================================================================ C10big: monotonic fits of tables with thousands of coefficients
// Tolerances inside the solver that grow with the size of the system are invisible on tables of a few hundred coefficients. 2-d fits of 1300-4500 coefficients on
// data that rises along the monotonic dimension with shallow dips (1e-6 ... 1e-3 of the data scale) and a fine ripple; the returned coefficients must be non-decreasing
// along the monotonic dimension exactly, as floats.
static void run_C10big(const Args &a, long cs) {
	Rng r(a.seed, "C10big", cs);
	Problem p; p.nd = 2; p.ntot = 1; p.kind = "large-monotonic"; uint32_t monodim = (uint32_t)r.below(2);
	for (int d = 0; d < 2; d++) { uint32_t o = (uint32_t)r.range(1, 2); int n = 36 + (int)r.below(32); int nk = n + o + 1; std::vector<double> k(nk); double x = -1.0 + r.U(); for (int i = 0; i < nk; i++) { k[i] = x; x += 0.8 + 0.4 * r.U(); }
		p.ord.push_back(o); p.kn.push_back(k); p.n.push_back(n); p.ntot *= (size_t)n; p.por.push_back((uint32_t)r.range(1, (int)o)); p.lam.push_back(r.coin(0.5) ? 0.0 : 1e-8);
		// abscissae: one at the Greville site of every basis function (so that each has data inside its support and the normal matrix of the full grid is positive
		// definite by construction - there is no dense oracle here to sort out ill-posed problems) plus a few more, sorted
		int np = n + 2 + (int)r.below(4); std::vector<double> c(np); for (int i = 0; i < np; i++) { if (i < n && !a.extra.count("uniform-abscissae")) { double gsum = 0; for (uint32_t j = 1; j <= o; j++) gsum += k[i + j]; c[i] = gsum / o; } else c[i] = a.extra.count("uniform-abscissae") ? k[0] + (k[nk - 1] - k[0]) * (0.002 + 0.996 * (i + 0.5) / np) : k[0] + (k[nk - 1] - k[0]) * (0.01 + 0.98 * r.U()); c[i] = std::min(std::max(c[i], k[0] + 1e-9), k[nk - 1] - 1e-9); } std::sort(c.begin(), c.end()); p.co.push_back(c); }
	double span = p.kn[monodim].back() - p.kn[monodim][0], lo = p.kn[monodim][0]; int ndips = r.range(2, 6); std::vector<double> dc, dw, da; for (int i = 0; i < ndips; i++) { dc.push_back(lo + span * r.U()); dw.push_back(span * (0.01 + 0.04 * r.U())); da.push_back(std::pow(10.0, -(double)r.range(3, 6))); }
	double scale = std::pow(10.0, (double)r.range(-3, 3));
	std::vector<unsigned> I(2); for (unsigned i = 0; i < p.co[0].size(); i++) for (unsigned j = 0; j < p.co[1].size(); j++) { I[0] = i; I[1] = j; double t = (p.co[monodim][I[monodim]] - lo) / span, u = p.co[1 - monodim][I[1 - monodim]];
		double v = 1 + t + 0.2 * std::sin(0.3 * u); for (int q = 0; q < ndips; q++) { double z = (p.co[monodim][I[monodim]] - dc[q]) / dw[q]; v -= da[q] * std::exp(-z * z) * (1 + 0.5 * std::sin(u + q)); } v += 1e-6 * std::sin(40 * t * span);
		p.idx.push_back(I); p.y.push_back(v * scale); p.w.push_back(1.0); }
	std::string pj = prob_brief(p); context(pj); count("large-monotonic-problems"); count("large-monotonic:coefficients", (long)p.ntot); count("monodim:" + std::to_string(monodim));
	photospline::ndsparse *data = make_data(p); Table T; phase_log("fit(monodim) (large table)");
	try { T.fit(*data, p.w, p.co, p.ord, p.kn, p.lam, p.por, a.extra.count("no-monodim") ? Table::no_monodim : monodim, getenv("VF_FIT_VERBOSE") != nullptr); } catch (std::exception &e) { viol("C10:fit(monodim,large-table):threw", "{\"what\":" + jstr(e.what()) + ",\"problem\":" + pj + "}"); delete data; return; }
	delete data; const float *c = T.get_coefficients(); size_t inner = monodim == 0 ? (size_t)p.n[1] : 1; int nm = p.n[monodim]; long dec = 0; double worst = 0; size_t wi = 0; bool fin = true;
	for (size_t i = 0; i < p.ntot; i++) { if (!std::isfinite(c[i])) fin = false; int j = (int)((i / inner) % nm); if (j + 1 < nm && c[i + inner] < c[i]) { dec++; double dlt = (double)c[i] - (double)c[i + inner]; if (dlt > worst) { worst = dlt; wi = i; } } }
	count("large-monotonic-fits"); count("large-monotonic:coefficient-steps-checked", (long)(p.ntot - p.ntot / nm)); uint64_t h = hash_mix(1010, p.ntot); for (size_t i = 0; i < p.y.size(); i += 97) h = hash_d(h, p.y[i]); distinct(h);
	if (!fin) { viol("C10:fit(monodim,large-table):non-finite-coefficients", pj); return; }
	if (dec) viol("C10:fit(monodim,large-table):coefficients-decrease-along-monodim", "{\"decreasing_steps\":" + std::to_string(dec) + ",\"worst_step\":" + jnum(-worst) + ",\"at\":" + std::to_string(wi) + ",\"data_scale\":" + jnum(scale) + ",\"monodim\":" + std::to_string(monodim) + ",\"problem\":" + pj + "}");
	sample("{\"coefficients\":" + std::to_string(p.ntot) + ",\"monodim\":" + std::to_string(monodim) + ",\"decreasing_steps\":" + std::to_string(dec) + "}");
}

// ================================================================ C13
template <class T> struct Exact { T *p; size_t n; Exact(const std::vector<T> &v) : n(v.size()) { p = (T *)malloc(n * sizeof(T) + (n == 0)); std::copy(v.begin(), v.end(), p); } ~Exact() { free(p); } array_view<T> view() const { return array_view<T>(p, n); } };
struct TableSnap { unsigned nd; std::vector<unsigned> ord; std::vector<uint64_t> nk, nax; std::vector<float> c; std::vector<double> k0; };
static TableSnap tsnap(const Table &T) { TableSnap s; s.nd = T.get_ndim(); for (unsigned d = 0; d < s.nd; d++) { s.ord.push_back(T.get_order(d)); s.nk.push_back(T.get_nknots(d)); s.nax.push_back(T.get_ncoeffs(d)); s.k0.push_back(T.get_knot(d, 0)); s.k0.push_back(T.lower_extent(d)); s.k0.push_back(T.upper_extent(d)); s.k0.push_back(T.get_period(d)); } if (s.nd) s.c.assign(T.get_coefficients(), T.get_coefficients() + T.get_ncoeffs()); return s; }
static bool tsame(const TableSnap &a, const TableSnap &b) { return a.nd == b.nd && a.ord == b.ord && a.nk == b.nk && a.nax == b.nax && a.k0 == b.k0 && a.c.size() == b.c.size() && (a.c.empty() || memcmp(a.c.data(), b.c.data(), 4 * a.c.size()) == 0); }

static void run_C13(const Args &a, long cs) {
	Rng r(a.seed, "C13", cs);
	// small valid base problem
	Problem p;
	p.nd = r.range(1, 3); p.ntot = 1;
	for (int d = 0; d < p.nd; d++) { uint32_t o = (uint32_t)r.below(4); int nk = 2 * o + 2 + (int)r.below(4); p.ord.push_back(o); p.por.push_back((uint32_t)r.below(o + 1)); p.kn.push_back(gen_knots(r, o, nk, 1, 1.0, r.U(), true)); p.n.push_back(nk - o - 1); p.ntot *= nk - o - 1; int np = nk + 2; std::vector<double> c; for (int i = 0; i < np; i++) c.push_back(p.kn[d][0] + (p.kn[d].back() - p.kn[d][0]) * (0.01 + 0.98 * (i + 0.5) / np)); p.co.push_back(c); p.lam.push_back(r.coin(0.3) ? 0 : std::pow(10.0, (double)r.range(-3, 3))); }
	{ size_t npt = 1; for (int d = 0; d < p.nd; d++) npt *= p.co[d].size(); std::vector<unsigned> I(p.nd); for (size_t lin = 0; lin < npt; lin++) { size_t q = lin; for (int d = p.nd - 1; d >= 0; d--) { I[d] = (unsigned)(q % p.co[d].size()); q /= p.co[d].size(); } p.idx.push_back(I); } }
	fill_data(r, p, 0); for (auto &w : p.w) w = 0.5 + r.U();
	// working copies that get corrupted
	std::vector<double> w = p.w, lam = p.lam; std::vector<std::vector<double>> co = p.co, kn = p.kn; std::vector<uint32_t> ord = p.ord, por = p.por;
	std::vector<std::vector<unsigned>> idx = p.idx; std::vector<unsigned> ranges; for (int d = 0; d < p.nd; d++) ranges.push_back((unsigned)p.co[d].size());
	uint32_t monodim = Table::no_monodim;
	if (r.coin(0.3)) { // one shared smoothing / penalty-order entry for all dimensions (orders differ between dimensions: the shared penalty order may exceed some of them)
		uint32_t mx = 0; for (auto o : ord) mx = std::max(mx, o);
		int form = (int)r.below(3); // 0: both shared, 1: only the smoothing shared, 2: only the penalty order shared (the two arguments are independent)
		if (form != 2) lam.assign(1, r.coin(0.2) ? 0.0 : std::pow(10.0, (double)r.range(-3, 3))); if (form != 1) por.assign(1, (uint32_t)r.below(mx + 3)); count(form == 0 ? "tuples-with-shared-penalty-arguments" : form == 1 ? "tuples-with-shared-smoothing-only" : "tuples-with-shared-penalty-order-only");
	}
	bool must_reject = false; std::vector<std::string> applied;
	int ncorr = cs % 7 == 0 ? 0 : (r.coin(0.25) ? 2 : 1);
	if (cs % 25 == 24) { // template of a fit that once never returned: three dimensions, ~100 coefficients, seven data points (some with zero weight), monotonic along a cubic
		// dimension whose penalty vanishes (penalty order above the order): singular normal equations. Values are randomised around the template.
		ncorr = 0; p.nd = 3; ord = {3, 1, 1}; por = {(uint32_t)(4 + r.below(2)), 1, (uint32_t)(2 + r.below(2))}; lam = {1.0, r.coin(0.5) ? 1.0 : 0.3, r.coin(0.7) ? 1e-10 : 0.0};
		kn = {{-3, -2, -1, 0, 1, 2, 3, 4, 5, 6, 7, 8}, {-1, 0, 1, 2}, {-1, 0, 1, 2, 3, 4, 5, 6}}; if (r.coin(0.5)) for (auto &kv : kn) for (size_t i = 1; i < kv.size(); i++) kv[i] += 0.3 * (r.U() - 0.5);
		co = {{}, {}, {}}; unsigned rg[3] = {3, 4, 2}; for (int d = 0; d < 3; d++) for (unsigned i = 0; i < rg[d]; i++) co[d].push_back(kn[d][ord[d]] + (kn[d][kn[d].size() - ord[d] - 1] - kn[d][ord[d]]) * r.U() * (d == 0 ? 0.5 : 1.0) - (d == 0 ? 2.5 : 0.7));
		ranges = {3, 4, 2}; idx.clear(); w.clear(); p.y.clear(); size_t npts = 5 + r.below(5);
		for (size_t i = 0; i < npts; i++) { idx.push_back({(unsigned)r.below(3), (unsigned)r.below(4), (unsigned)r.below(2)}); w.push_back(r.coin(0.2) ? 0.0 : (r.coin(0.5) ? 2.5 : 1.0)); p.y.push_back((r.U() - 0.5) * 4); }
		monodim = 0; p.ord = ord; p.por = por; p.kn = kn; p.co = co; p.lam = lam; p.n = {8, 2, 6}; p.ntot = 96; p.kind = "ill-posed-template"; p.idx = idx; p.w = w;
		applied.push_back("ill-posed:template(3-d,few-points,monotonic-cubic,vanishing-penalty)");
	}
	if (cs % 25 == 17) { // a consistent request in 5 or 6 dimensions (the fit array the fitter works on has twice as many): small orders, few knots, a full grid of 2-3 abscissae per axis
		ncorr = 0; p.nd = r.range(5, 6); ord.clear(); por.clear(); lam.clear(); kn.clear(); co.clear(); ranges.clear(); p.n.clear(); p.ntot = 1; size_t npt = 1;
		for (int d = 0; d < p.nd; d++) { uint32_t o = (uint32_t)r.below(2); int nk = 2 * (int)o + 2 + (int)r.below(2); ord.push_back(o); por.push_back((uint32_t)r.below(o + 1)); lam.push_back(r.coin(0.5) ? 0.0 : 1e-2); kn.push_back(gen_knots(r, o, nk, 1, 1.0, r.U(), true)); int nax = nk - (int)o - 1; int np = nax + (int)r.below(2); std::vector<double> c; for (int i = 0; i < np; i++) c.push_back(kn[d][0] + (kn[d].back() - kn[d][0]) * (0.05 + 0.9 * (i + 0.5) / np)); co.push_back(c); ranges.push_back((unsigned)np); p.n.push_back(nax); p.ntot *= (size_t)nax; npt *= (size_t)np; }
		idx.clear(); w.clear(); p.y.clear(); std::vector<unsigned> I(p.nd); for (size_t lin = 0; lin < npt; lin++) { size_t q = lin; for (int d = p.nd - 1; d >= 0; d--) { I[d] = (unsigned)(q % co[d].size()); q /= co[d].size(); } idx.push_back(I); w.push_back(1.0); p.y.push_back(1.0 + std::sin(0.37 * (double)lin)); }
		monodim = Table::no_monodim; p.ord = ord; p.por = por; p.kn = kn; p.co = co; p.lam = lam; p.kind = "5-6-dimensions"; p.idx = idx; p.w = w;
		applied.push_back("valid:5-or-6-dimensions"); count("consistent-requests-in-5-or-6-dimensions");
	}
	if (cs % 25 == 11) { // a consistent request with a high spline order and a penalty order of 9..12: nothing but the spline order limits the penalty order, so the
		// fitter's penalty and basis code must cope (it completes or refuses; the sanitizer watches its work arrays)
		ncorr = 0; p.nd = 1; uint32_t o = (uint32_t)r.range(9, 12); ord = {o}; por = {(uint32_t)r.range(9, (int)o)}; lam = {std::pow(10.0, (double)r.range(-3, 0))}; int nk = 2 * (int)o + 2 + (int)r.below(3);
		kn = {gen_knots(r, o, nk, 1, 1.0, r.U(), true)}; int np = nk - (int)o - 1 + 4; co = {{}}; for (int i = 0; i < np; i++) co[0].push_back(kn[0][0] + (kn[0].back() - kn[0][0]) * (0.01 + 0.98 * (i + 0.5) / np));
		ranges = {(unsigned)np}; idx.clear(); w.clear(); p.y.clear(); for (int i = 0; i < np; i++) { idx.push_back({(unsigned)i}); w.push_back(1.0); p.y.push_back(1.5 + std::sin(0.9 * co[0][i])); }
		monodim = r.coin(0.25) ? 0 : Table::no_monodim; p.ord = ord; p.por = por; p.kn = kn; p.co = co; p.lam = lam; p.n = {nk - (int)o - 1}; p.ntot = (size_t)(nk - (int)o - 1); p.kind = "high-order"; p.idx = idx; p.w = w;
		applied.push_back("valid:spline-order-9..12-with-penalty-order-9-or-more"); count("high-order-consistent-requests");
	}
	for (int q = 0; q < ncorr; q++) {
		int d = (int)r.below(p.nd);
		switch (r.below(28)) {
		case 26: if (!lam.empty()) { // a negative (or NaN) smoothing strength: the normal equations are indefinite; with a monotonic dimension the non-negative solver is handed a problem it asserts on
			lam[r.below(lam.size())] = r.coin(0.8) ? -std::pow(10.0, r.U() * 6 - 3) : NAN; if (monodim == Table::no_monodim && r.coin(0.7)) monodim = (uint32_t)r.below(p.nd); applied.push_back("negative-or-NaN-smoothing"); } break;
		case 27: if (!w.empty()) { size_t nneg = 1 + r.below(std::min<size_t>(w.size(), 6)); for (size_t e = 0; e < nneg; e++) w[r.below(w.size())] = r.coin(0.8) ? -(0.1 + r.U() * 5) : NAN; if (monodim == Table::no_monodim && r.coin(0.7)) monodim = (uint32_t)r.below(p.nd); applied.push_back("negative-or-NaN-weights"); } break;
		case 24: case 25: { // valid but ill-posed: a handful of data points, a monotonic dimension and a vanishing penalty (penalty order above the order) or zero smoothing there:
			// the normal equations are singular. Fitting must still complete or throw - the watchdog of the driver reports a fit that does neither.
			monodim = (uint32_t)r.below(p.nd); size_t keep = 3 + r.below(6); while (idx.size() > keep) { size_t k2 = r.below(idx.size()); idx.erase(idx.begin() + k2); if (k2 < w.size()) w.erase(w.begin() + k2); if (k2 < p.y.size()) p.y.erase(p.y.begin() + k2); }
			if (por.size() == (size_t)p.nd && monodim < por.size() && monodim < ord.size()) por[monodim] = ord[monodim] + 1 + (uint32_t)r.below(3);
			for (int e = 0; e < p.nd; e++) if (r.coin(0.6)) { if (por.size() == (size_t)p.nd && e < (int)ord.size() && r.coin(0.5)) por[e] = ord[e] + 1 + (uint32_t)r.below(3); else if (lam.size() == (size_t)p.nd) lam[e] = r.coin(0.5) ? 0.0 : 1e-10; } // penalties vanish in most dimensions
			if (r.coin(0.3)) for (auto &ww : w) if (r.coin(0.3)) ww = 0; // some zero weights as well
			applied.push_back("ill-posed:few-points+monotonic+vanishing-penalty"); break; }
		case 22: if (d < (int)kn.size() && kn[d].size() >= 4) { // a NaN (or infinity) hides an out-of-order knot from a comparison-based test for sortedness
				size_t i = 1 + r.below(kn[d].size() - 3); double sp[] = {NAN, NAN, INFINITY, -INFINITY}; double v = sp[r.below(4)]; std::swap(kn[d][i + 1], kn[d][i - 1]); kn[d][i] = v; must_reject = true; applied.push_back("knots-unsorted-behind-a-non-finite-value"); } break;
		case 23: if (d < (int)kn.size() && kn[d].size() >= 3) { kn[d][r.below(kn[d].size())] = r.coin(0.5) ? NAN : (r.coin(0.5) ? INFINITY : -INFINITY); applied.push_back("non-finite-knot"); } break; // sortedness is judged below on the final state
		case 0: if (!w.empty()) w.pop_back(); must_reject = true; applied.push_back("weights-one-short"); break;
		case 1: w.push_back(1.0); must_reject = true; applied.push_back("weights-one-long"); break;
		case 2: w.clear(); must_reject = true; applied.push_back("weights-empty"); break;
		case 3: if (!co.empty()) co.pop_back(); must_reject = true; applied.push_back("coords-one-vector-short"); break;
		case 4: co.push_back(co[0]); must_reject = true; applied.push_back("coords-one-vector-long"); break;
		case 5: if (!ord.empty()) ord.pop_back(); must_reject = true; applied.push_back("orders-one-short"); break;
		case 6: ord.push_back(2); must_reject = true; applied.push_back("orders-one-long"); break;
		case 7: if (!kn.empty()) kn.pop_back(); must_reject = true; applied.push_back("knots-one-vector-short"); break;
		case 8: kn.push_back(kn[0]); must_reject = true; applied.push_back("knots-one-vector-long"); break;
		case 9: if (p.nd >= 2) { lam.resize(p.nd >= 3 ? 2 : 3); must_reject = true; applied.push_back("smoothing-wrong-count"); } else { lam.clear(); must_reject = true; applied.push_back("smoothing-empty"); } break;
		case 10: if (p.nd >= 2) { por.resize(p.nd >= 3 ? 2 : 3, 1); must_reject = true; applied.push_back("penalty-wrong-count"); } else { por.clear(); must_reject = true; applied.push_back("penalty-empty"); } break;
		case 11: idx[r.below(idx.size())][d] = ranges[d] + (unsigned)r.below(3); must_reject = true; applied.push_back("index-outside-declared-range"); break;
		case 12: if (d < (int)co.size() && co[d].size() >= 2) { size_t cut = 1 + r.below(co[d].size() - 1); co[d].resize(co[d].size() - cut); must_reject = true; applied.push_back("coordinate-vector-shorter-than-range"); } break;
		case 13: if (d < (int)kn.size() && kn[d].size() >= 3) { size_t i = 1 + r.below(kn[d].size() - 2); std::swap(kn[d][i], kn[d][i - 1]); if (kn[d][i] != kn[d][i - 1]) { must_reject = true; applied.push_back("knots-unsorted"); } } break;
		case 14: if (d < (int)kn.size() && d < (int)ord.size() && ord[d] < 100) { size_t keep = r.below(2 * ord[d] + 2); kn[d].resize(std::min(keep, kn[d].size())); must_reject = true; applied.push_back("too-few-knots-for-order"); } break;
		case 15: if (d < (int)ord.size()) { uint32_t big[] = {7, 50, 1000, 1000000, 4000000000u}; ord[d] = big[r.below(5)]; if (d < (int)kn.size() && kn[d].size() < 2 * (uint64_t)ord[d] + 2) must_reject = true; applied.push_back("huge-order"); } break;
		case 16: monodim = (uint32_t)p.nd + (uint32_t)r.below(3); must_reject = true; applied.push_back("monodim-out-of-range"); break;
		case 17: if (d < (int)por.size() && d < (int)ord.size()) { por[d] = ord[d] + 1 + (uint32_t)r.below(3); applied.push_back("penalty-order-above-order"); } break;
		case 18: monodim = (uint32_t)r.below(p.nd); applied.push_back("valid-monodim"); break;
		case 19: if (d < (int)por.size()) { por[d] = 1000000; applied.push_back("penalty-order-huge"); } break;
		case 20: ranges[d] += 1 + (unsigned)r.below(3); must_reject = true; applied.push_back("declared-range-longer-than-coordinates"); break;
		default: applied.push_back("none"); break;
		}
	}
	if (applied.empty()) applied.push_back("valid");
	{ // whether the tuple is inconsistent is decided on the final state (two corruptions can cancel)
		bool bad = w.size() != idx.size() || co.size() != (size_t)p.nd || ord.size() != (size_t)p.nd || kn.size() != (size_t)p.nd
		           || (lam.size() != (size_t)p.nd && lam.size() != 1) || (por.size() != (size_t)p.nd && por.size() != 1)
		           || (monodim != Table::no_monodim && monodim >= (uint32_t)p.nd);
		for (int d = 0; d < p.nd && !bad; d++) {
			for (auto &I : idx) if (I[d] >= ranges[d]) bad = true;
			if (co[d].size() < ranges[d]) bad = true;
			if (!std::is_sorted(kn[d].begin(), kn[d].end())) bad = true;
			{ std::vector<double> fin; for (double v : kn[d]) if (std::isfinite(v)) fin.push_back(v); if (!std::is_sorted(fin.begin(), fin.end())) bad = true; } // unsorted however the non-finite entries are read
			if (kn[d].size() < 2 * (uint64_t)ord[d] + 2) bad = true;
		}
		must_reject = bad;
	}
	std::string cls; for (auto &s : applied) cls += (cls.empty() ? "" : "+") + s;
	for (auto &s : applied) count("corruption:" + s);
	count("tuples"); count(must_reject ? "tuples-must-reject" : "tuples-may-complete");
	uint64_t h = hash_mix(13, cs); for (auto &s : applied) h = hash_mix(h, hash_str(s)); distinct(hash_mix(h, hash_d(1, p.y[0])));
	// data set
	photospline::ndsparse *data = new photospline::ndsparse(idx.size(), p.nd);
	for (size_t i = 0; i < idx.size(); i++) { std::vector<unsigned> I = idx[i]; data->insertEntry(p.y[i], I.data()); }
	for (int d = 0; d < p.nd; d++) data->ranges[d] = std::max(ranges[d], data->ranges[d] > ranges[d] && applied[0] != "index-outside-declared-range" ? ranges[d] : ranges[d]);
	for (int d = 0; d < p.nd; d++) data->ranges[d] = ranges[d];
	// exact-size heap blocks behind array_views (ASan red zones catch any over-read)
	Exact<double> wE(w), lamE(lam); Exact<uint32_t> ordE(ord), porE(por);
	std::vector<Exact<double> *> coE, knE; std::vector<array_view<double>> coV, knV;
	for (auto &v : co) { coE.push_back(new Exact<double>(v)); coV.push_back(coE.back()->view()); }
	for (auto &v : kn) { knE.push_back(new Exact<double>(v)); knV.push_back(knE.back()->view()); }
	std::string dj = "{\"corruptions\":" + jstr(cls) + ",\"must_reject\":" + (must_reject ? "true" : "false") + ",\"base\":" + prob_brief(p) + "}";
	for (int target = 0; target < 2; target++) { // 0: empty table, 1: previously fitted table
		Table T;
		if (target == 1) { photospline::ndsparse *d0 = make_data(p); try { T.fit(*d0, p.w, p.co, p.ord, p.kn, p.lam, p.por, Table::no_monodim, false); } catch (std::exception &e) { note("base-fit-threw"); } delete d0; }
		TableSnap before = tsnap(T);
		context(dj); phase_log(std::string("fit into ") + (target ? "populated" : "empty") + " table");
		bool threw = false; std::string what;
		try { T.fit(*data, wE.view(), coV, ordE.view(), knV, lamE.view(), porE.view(), monodim, false); } catch (std::exception &e) { threw = true; what = e.what(); }
		count(threw ? "fits-threw" : "fits-completed");
		if (target == 1 && before.nd != 0) {
			count("fits-into-populated-table");
			if (!threw) viol("C13:fit:populated-table-silently-overwritten", dj);
			else if (!tsame(before, tsnap(T))) viol("C13:fit:exception-left-populated-table-changed", dj);
			continue;
		}
		if (must_reject && !threw) viol("C13:fit:inconsistent-arguments-accepted:" + applied[0], dj);
		if (threw && T.get_ndim() != 0) viol("C13:fit:exception-left-table-changed", "{\"what\":" + jstr(what) + ",\"d\":" + dj + "}");
		if (!threw) { // completes: table must be usable
			bool fin = true; for (uint64_t i = 0; i < T.get_ncoeffs(); i++) if (!std::isfinite(T.get_coefficients()[i])) fin = false;
			if (!fin) count("completed-fits-with-non-finite-coefficients(ill-posed)");
			phase_log("use of fitted table"); std::vector<double> x(T.get_ndim()); std::vector<int> c(T.get_ndim()); for (unsigned d = 0; d < T.get_ndim(); d++) x[d] = 0.5 * (T.lower_extent(d) + T.upper_extent(d));
			if (T.searchcenters(x.data(), c.data())) { volatile double v = T.ndsplineeval(x.data(), c.data(), 0); (void)v; }
			for (unsigned d = 0; d < T.get_ndim(); d++) { volatile double pr = T.get_period(d); (void)pr; }
		}
	}
	// C wrapper: non-zero return for every must-reject tuple the C signature can express (array counts are implied by data->ndim there)
	bool c_expressible = co.size() == (size_t)p.nd && ord.size() == (size_t)p.nd && kn.size() == (size_t)p.nd && lam.size() == (size_t)p.nd && por.size() == (size_t)p.nd && w.size() == idx.size();
	std::vector<double> lamC = lam; std::vector<uint32_t> porC = por;
	if (!c_expressible && lam.size() == 1 && por.size() == 1 && co.size() == (size_t)p.nd && ord.size() == (size_t)p.nd && kn.size() == (size_t)p.nd && w.size() == idx.size()) { lamC.assign(p.nd, lam[0]); porC.assign(p.nd, por[0]); c_expressible = true; }
	Exact<double> lamCE(lamC); Exact<uint32_t> porCE(porC);
	// what the C signature can express and must reject, decided on the final tuple (array counts are implied by data->ndim there; a coordinate
	// array shorter than the declared range cannot be detected through a raw pointer and is a precondition of the C call)
	bool c_must_reject = false, skipC = false;
	if (c_expressible) {
		if (monodim != Table::no_monodim && monodim >= (uint32_t)p.nd) c_must_reject = true;
		for (int d = 0; d < p.nd; d++) { for (auto &I : idx) if (I[d] >= ranges[d]) c_must_reject = true; if (!std::is_sorted(kn[d].begin(), kn[d].end())) c_must_reject = true; if (kn[d].size() < 2 * (uint64_t)ord[d] + 2) c_must_reject = true; if (co[d].size() < ranges[d]) skipC = true; }
	}
	if (c_expressible && !skipC) {
		splinetable hnd; splinetable_init(&hnd);
		std::vector<const double *> cp, kp; std::vector<uint64_t> nk; for (int d = 0; d < p.nd; d++) { cp.push_back(coE[d]->p); kp.push_back(knE[d]->p); nk.push_back(knE[d]->n); }
		phase_log("C:splinetable_glamfit");
		int rc = splinetable_glamfit(&hnd, data, wE.p, cp.data(), ordE.p, kp.data(), nk.data(), lamCE.p, porCE.p, monodim, false);
		count("C-wrapper-calls");
		if (c_must_reject && rc == 0) viol("C13:C:splinetable_glamfit:returned-0-for-inconsistent-arguments:" + applied[0], dj);
		if (rc != 0 && splinetable_ndim(&hnd) != 0) viol("C13:C:splinetable_glamfit:failure-left-table-changed", dj);
		splinetable_free(&hnd);
	}
	for (auto *e : coE) delete e; for (auto *e : knE) delete e;
	delete data;
	if (cs % 60 == 0) sample(dj);
}

int main(int argc, char **argv) {
	Args a = parse_args(argc, argv);
	open_out(a.outpath);
	for (long cs = a.from; cs < a.to; cs++) {
		begin_case(cs);
		if (a.prop == "C09") run_C09(a, cs);
		else if (a.prop == "C09big") run_C09big(a, cs);
		else if (a.prop == "C10") run_C10(a, cs);
		else if (a.prop == "C10big") { prop_id() = "C10"; run_C10big(a, cs); }
		else if (a.prop == "C13") run_C13(a, cs);
		else { fprintf(stderr, "unknown mode %s\n", a.prop.c_str()); return 2; }
	}
	finish();
	fflush(stdout);
	_exit(0);
}
