// h_fits.cpp - C06 (round trip + documented layout + golden files) and C07 (hostile bytes).
#include "vf_ref.h"
#include <photospline/cinter/splinetable.h>
#include <sys/wait.h>
#include <sys/stat.h>
#include <dirent.h>

using namespace vf;
typedef photospline::splinetable<> Table;

static std::string g_tmp;

static std::string rtrim(std::string s) { while (!s.empty() && s.back() == ' ') s.pop_back(); return s; }
static bool write_file(const std::string &p, const void *d, size_t n) { FILE *f = fopen(p.c_str(), "wb"); if (!f) return false; bool ok = n == 0 || fwrite(d, 1, n, f) == n; fclose(f); return ok; }
static std::vector<unsigned char> read_file(const std::string &p) { std::vector<unsigned char> v; FILE *f = fopen(p.c_str(), "rb"); if (!f) return v; unsigned char b[65536]; size_t n; while ((n = fread(b, 1, sizeof b, f)) > 0) v.insert(v.end(), b, b + n); fclose(f); return v; }

// ---------------------------------------------------------------- table snapshot through public getters
struct Snap {
	unsigned ndim = 0; std::vector<unsigned> order; std::vector<uint64_t> nknots, naxes, strides; std::vector<std::vector<double>> knots;
	std::vector<double> ext, periods; std::vector<float> coef; std::vector<std::pair<std::string, std::string>> aux;
};
static Snap snap(const Table &T, bool with_period = true) {
	Snap s; s.ndim = T.get_ndim();
	for (unsigned d = 0; d < s.ndim; d++) {
		s.order.push_back(T.get_order(d)); s.nknots.push_back(T.get_nknots(d)); s.naxes.push_back(T.get_ncoeffs(d)); s.strides.push_back(T.get_stride(d));
		s.knots.push_back(std::vector<double>(T.get_knots(d), T.get_knots(d) + T.get_nknots(d)));
		s.ext.push_back(T.lower_extent(d)); s.ext.push_back(T.upper_extent(d));
		if (with_period) s.periods.push_back(T.get_period(d));
	}
	if (s.ndim) s.coef.assign(T.get_coefficients(), T.get_coefficients() + T.get_ncoeffs());
	for (size_t i = 0; i < T.get_naux_values(); i++) { const char *k = T.get_aux_key(i); const char *v = T.get_aux_value(k); s.aux.push_back({k ? k : "<null>", v ? v : "<null>"}); }
	return s;
}
static bool feq(float a, float b) { return biteqf(a, b) || (std::isnan(a) && std::isnan(b)); }
// "" if equal, otherwise the name of the first differing field
static std::string snap_diff(const Snap &a, const Snap &b, bool aux_trim = true) {
	if (a.ndim != b.ndim) return "ndim";
	if (a.order != b.order) return "order";
	if (a.nknots != b.nknots) return "nknots";
	if (a.naxes != b.naxes) return "naxes";
	if (a.strides != b.strides) return "strides";
	for (unsigned d = 0; d < a.ndim; d++) { if (a.knots[d].size() != b.knots[d].size()) return "nknots"; for (size_t i = 0; i < a.knots[d].size(); i++) if (!biteq(a.knots[d][i], b.knots[d][i])) return "knots"; }
	if (a.ext.size() != b.ext.size()) return "extents";
	for (size_t i = 0; i < a.ext.size(); i++) if (!biteq(a.ext[i], b.ext[i])) return "extents";
	if (a.periods.size() != b.periods.size()) return "periods";
	for (size_t i = 0; i < a.periods.size(); i++) if (!biteq(a.periods[i], b.periods[i])) return "periods";
	if (a.coef.size() != b.coef.size()) return "ncoeffs";
	for (size_t i = 0; i < a.coef.size(); i++) if (!feq(a.coef[i], b.coef[i])) return "coefficients";
	if (a.aux.size() != b.aux.size()) return "aux-count";
	for (size_t i = 0; i < a.aux.size(); i++) {
		if (a.aux[i].first != b.aux[i].first) return "aux-key";
		if (aux_trim ? rtrim(a.aux[i].second) != rtrim(b.aux[i].second) : a.aux[i].second != b.aux[i].second) return "aux-value";
	}
	return "";
}
static std::string aux_json(const Snap &s) { std::string j = "["; for (size_t i = 0; i < s.aux.size(); i++) { if (i) j += ","; j += "[" + jstr(s.aux[i].first) + "," + jstr(s.aux[i].second) + "]"; } return j + "]"; }
static Snap snap_of_spec(const Spec &s) {
	Snap n; n.ndim = s.ndim(); uint64_t st = 1;
	n.strides.assign(n.ndim, 1);
	for (int d = (int)n.ndim - 1; d >= 0; d--) { n.strides[d] = st; st *= (uint64_t)s.naxes(d); }
	for (unsigned d = 0; d < n.ndim; d++) { n.order.push_back(s.order[d]); n.nknots.push_back(s.knots[d].size()); n.naxes.push_back(s.naxes(d)); n.knots.push_back(s.knots[d]); }
	n.ext = s.has_extents ? s.ext() : Spec(s).ext();
	if (!s.has_extents) { n.ext.clear(); for (unsigned d = 0; d < n.ndim; d++) { n.ext.push_back(s.knots[d][s.order[d]]); n.ext.push_back(s.knots[d][s.knots[d].size() - s.order[d] - 1]); } }
	for (unsigned d = 0; d < n.ndim; d++) n.periods.push_back(d < s.periods.size() ? s.periods[d] : 0.0);
	n.coef = s.coef; n.coef.resize(s.ncoef(), 1.f);
	n.aux = s.aux;
	return n;
}
static uint64_t snap_digest(const Snap &s) {
	uint64_t h = hash_mix(99, s.ndim);
	for (unsigned d = 0; d < s.ndim; d++) { h = hash_mix(h, s.order[d]); h = hash_mix(h, s.nknots[d]); h = hash_mix(h, s.naxes[d]); for (double k : s.knots[d]) h = hash_d(h, k); }
	for (double e : s.ext) h = hash_d(h, e);
	for (float c : s.coef) { uint32_t b; memcpy(&b, &c, 4); h = hash_mix(h, b); }
	return h;
}

// ---------------------------------------------------------------- raw-layout decode of bytes the library wrote
static bool decode_layout(const unsigned char *p, size_t n, Snap &out, std::string &why) {
	std::vector<RawHDU> hd; std::string w;
	if (!raw_decode(p, n, hd, &w)) { why = "raw decode failed: " + w; return false; }
	if (hd.empty()) { why = "no HDU"; return false; }
	RawHDU &pr = hd[0]; long bp, na; std::string v;
	if (!card_value(pr, "SIMPLE", v) || v != "T") { why = "SIMPLE"; return false; }
	if (!card_long(pr, "BITPIX", bp) || bp != -32) { why = "primary BITPIX is not -32"; return false; }
	if (!card_long(pr, "NAXIS", na) || na < 1) { why = "NAXIS"; return false; }
	out = Snap(); out.ndim = (unsigned)na;
	std::vector<long> nax(na);
	for (long a = 1; a <= na; a++) if (!card_long(pr, "NAXIS" + std::to_string(a), nax[a - 1])) { why = "NAXISn"; return false; }
	for (long d = 0; d < na; d++) out.naxes.push_back((uint64_t)nax[na - 1 - d]); // documented: reversed axis order
	long single;
	bool has_single = card_long(pr, "ORDER", single);
	for (long d = 0; d < na; d++) {
		long o; std::string sv;
		if (has_single) o = single;
		else {
			if (!card_value(pr, "ORDER" + std::to_string(d), sv)) { why = "ORDER" + std::to_string(d) + " missing"; return false; }
			if (sv.empty() || sv.find_first_not_of("0123456789") != std::string::npos) { why = "ORDERn is not an integer card: '" + sv + "'"; return false; }
			o = atol(sv.c_str());
		}
		out.order.push_back((unsigned)o);
	}
	size_t cnt = 1; for (uint64_t a : out.naxes) cnt *= a;
	if (pr.data.size() != cnt * 4) { why = "primary data size"; return false; }
	for (size_t i = 0; i < cnt; i++) out.coef.push_back(get_be_f(&pr.data[4 * i]));
	out.knots.resize(na); out.nknots.resize(na);
	std::vector<bool> seen(na, false); bool ext_seen = false;
	for (size_t h = 1; h < hd.size(); h++) {
		std::string xt, en; long b2, n2, n1;
		if (!card_value(hd[h], "XTENSION", xt) || rtrim(xt) != "IMAGE") { why = "extension is not IMAGE"; return false; }
		if (!card_value(hd[h], "EXTNAME", en)) { why = "extension without EXTNAME"; return false; }
		en = rtrim(en);
		if (!card_long(hd[h], "BITPIX", b2) || b2 != -64) { why = en + " BITPIX is not -64"; return false; }
		if (!card_long(hd[h], "NAXIS", n2) || n2 != 1 || !card_long(hd[h], "NAXIS1", n1)) { why = en + " is not 1-d"; return false; }
		std::vector<double> vals; for (long i = 0; i < n1; i++) vals.push_back(get_be_d(&hd[h].data[8 * i]));
		if (en.compare(0, 5, "KNOTS") == 0) { long d = atol(en.c_str() + 5); if (d < 0 || d >= na || seen[d]) { why = "bad KNOTS index"; return false; } seen[d] = true; out.knots[d] = vals; out.nknots[d] = vals.size(); }
		else if (en == "EXTENTS") { if (n1 != 2 * na) { why = "EXTENTS length"; return false; } out.ext = vals; ext_seen = true; }
		else { why = "unexpected extension " + en; return false; }
	}
	for (long d = 0; d < na; d++) if (!seen[d]) { why = "KNOTS" + std::to_string(d) + " missing"; return false; }
	if (!ext_seen) { why = "EXTENTS missing"; return false; }
	for (long d = 0; d < na; d++) { std::string sv; double pv = 0; if (card_value(pr, "PERIOD" + std::to_string(d), sv)) pv = strtod(sv.c_str(), nullptr); out.periods.push_back(pv); }
	uint64_t st = 1; out.strides.assign(na, 1); for (long d = na - 1; d >= 0; d--) { out.strides[d] = st; st *= out.naxes[d]; }
	// auxiliary cards = everything else with a value
	static const char *structural[] = {"SIMPLE", "BITPIX", "NAXIS", "EXTEND", "TYPE", "ORDER", "PERIOD", "COMMENT", "HISTORY", ""};
	for (auto &c : pr.cards) {
		std::string k = card_key(c); bool st2 = k.empty();
		for (const char **q = structural; **q; q++) if (k.compare(0, strlen(*q), *q) == 0) st2 = true;
		if (st2) continue;
		std::string val;
		if (k == "HIERARCH") { size_t eq = c.find('='); if (eq == std::string::npos) continue; std::string kk = c.substr(9, eq - 9); kk = rtrim(kk); RawHDU t; t.cards.push_back(pad80("XXXXXXXX= " + c.substr(eq + 1))); card_value(t, "XXXXXXXX", val); out.aux.push_back({kk, val}); continue; }
		RawHDU t; t.cards.push_back(c); if (card_value(t, k, val)) out.aux.push_back({k, val});
	}
	return true;
}

// ---------------------------------------------------------------- evaluation battery on whatever a read returned
template <class TT> static void battery(const TT &T, Rng &r, const char *what) {
	unsigned nd = T.get_ndim(); if (!nd) return;
	std::vector<double> x(nd); std::vector<int> c(nd); std::vector<double> g(nd + 1);
	auto Ef = T.template get_evaluator<float>(); auto Ed = T.template get_evaluator<double>();
	volatile double sink = 0;
	for (int p = 0; p < 12; p++) {
		for (unsigned d = 0; d < nd; d++) {
			const double *k = T.get_knots(d); uint64_t nk = T.get_nknots(d); unsigned o = T.get_order(d);
			switch (r.below(7)) {
			case 0: x[d] = k[r.below(nk)]; break;
			case 1: x[d] = std::nextafter(k[r.below(nk)], INFINITY); break;
			case 2: x[d] = k[nk - 1]; break;
			case 3: x[d] = k[0] + (k[std::min<uint64_t>(o, nk - 1)] - k[0]) * r.U(); break;
			case 4: x[d] = k[nk - 1 - std::min<uint64_t>(o, nk - 1)] + (k[nk - 1] - k[nk - 1 - std::min<uint64_t>(o, nk - 1)]) * r.U(); break;
			default: x[d] = k[0] + (k[nk - 1] - k[0]) * r.U(); break;
			}
		}
		phasef(std::string(what) + ":battery:searchcenters");
		bool ok = T.searchcenters(x.data(), c.data());
		sink = T(x.data()); sink = Ef(x.data(), 0);
		if (!ok) continue;
		phasef(std::string(what) + ":battery:ndsplineeval");
		int mask = (int)r.below(1u << std::min(nd, 20u));
		sink = T.template ndsplineeval<float>(x.data(), c.data(), 0); sink = T.template ndsplineeval<double>(x.data(), c.data(), mask);
		sink = Ef.ndsplineeval(x.data(), c.data(), mask); sink = Ed.ndsplineeval(x.data(), c.data(), 0);
		phasef(std::string(what) + ":battery:gradient");
		try { T.template ndsplineeval_gradient<float>(x.data(), c.data(), g.data()); Ed.ndsplineeval_gradient(x.data(), c.data(), g.data()); } catch (std::exception &) {}
		phasef(std::string(what) + ":battery:deriv");
		std::vector<unsigned> de(nd); for (auto &q : de) q = (unsigned)r.below(3);
		sink = T.ndsplineeval_deriv(x.data(), c.data(), de.data());
	}
	(void)sink;
}
static void battery_full(Table &T, Rng &r, const std::string &prop, const char *what) {
	battery(T, r, what);
	phasef(std::string(what) + ":battery:==");
	if (!(T == T)) { bool hasnan = false; for (uint64_t i = 0; i < T.get_ncoeffs(); i++) if (std::isnan(T.get_coefficients()[i])) hasnan = true; if (!hasnan) viol(prop + ":" + what + ":loaded-table-not-equal-to-itself", "{}"); }
	phasef(std::string(what) + ":battery:aux");
	for (size_t i = 0; i < T.get_naux_values(); i++) { const char *k = T.get_aux_key(i); if (!k) { viol(prop + ":" + what + ":null-aux-key", "{}"); break; } const char *v = T.get_aux_value(k); if (!v) { viol(prop + ":" + what + ":aux-key-without-value", "{}"); break; } std::string sv; T.read_key(k, sv); }
	phasef(std::string(what) + ":battery:write_fits_mem");
	Snap a = snap(T);
	std::pair<void *, size_t> w(nullptr, 0);
	try { w = T.write_fits_mem(); } catch (std::exception &e) { note(std::string("battery:write_fits_mem-threw")); return; }
	Table R; bool rok = true;
	phasef(std::string(what) + ":battery:re-read");
	try { R.read_fits_mem(w.first, w.second); } catch (std::exception &e) { rok = false; }
	free(w.first);
	if (!rok) { viol(prop + ":" + what + ":re-serialised-table-not-readable", "{}"); return; }
	Snap sr = snap(R);
	std::string df = snap_diff(a, sr);
	// aux cards of a corrupted header (non-ASCII keywords etc.) need not survive; the property demands safety only. Numeric fields must (C06).
	if (df.compare(0, 3, "aux") == 0) note("battery:aux-of-hostile-file-changed-on-re-serialisation");
	else if (!df.empty()) viol(prop + ":" + what + ":re-serialised-table-differs:" + df, "{\"aux_before\":" + aux_json(a) + ",\"aux_after\":" + aux_json(sr) + "}");
	phasef(std::string(what) + ":battery:permute-identity");
	std::vector<size_t> id(T.get_ndim()); for (size_t i = 0; i < id.size(); i++) id[i] = i;
	T.permuteDimensions(id);
	df = snap_diff(a, snap(T));
	if (!df.empty()) viol(prop + ":" + what + ":identity-permutation-changed-table:" + df, "{}");
}

// ================================================================ C06
static const char *AUXK[] = {"AKEY", "B2", "LONGERKEYNAME", "GEOMETRY", "A_VERY_LONG_HIERARCH_KEY", "N0", "LEVEL", "PARITY", "XY", "Z9999999", "SCALEFACTOR01", "K", "GEOTYPE", "VERSION", "AUTHOR1"};
static void run_C06(const Args &a, long cs) {
	Rng r(a.seed, "C06", cs);
	GenOpts g; g.custom_extents = false; g.special_coef = r.coin(0.6); g.max_block = 1u << 30; g.max_coef = a.tier == "thorough" ? 200000 : 40000; g.mag_exp_max = 300; g.min_table_bias = 0.2; g.extra_knots_max = 7;
	Spec s = gen_spec(r, g);
	int nd = s.ndim();
	// pairwise different axis lengths where the size budget allows (axis-order mistakes become visible)
	{
		std::set<long> used; size_t tot = 1; bool ok = true;
		for (int d = 0; d < nd && ok; d++) { long nax = s.naxes(d); int add = 0; while (used.count(nax + add)) add++; if (tot * (size_t)(nax + add) > g.max_coef * 4) { ok = false; break; } used.insert(nax + add); tot *= (size_t)(nax + add);
			for (int q = 0; q < add; q++) s.knots[d].push_back(s.knots[d].back() + std::fabs(s.knots[d].back() - s.knots[d][s.knots[d].size() - 2]) + 1e-300); }
		if (ok) { size_t old = s.coef.size(); (void)old; s.coef.resize(s.ncoef()); for (size_t i = 0; i < s.coef.size(); i++) if (i >= old) s.coef[i] = (float)(r.U() - 0.5); count("tables-with-pairwise-different-axes"); }
		else s = gen_spec(r, g);
		nd = s.ndim();
		if (s.coef.size() != s.ncoef()) s.coef.resize(s.ncoef(), 0.25f);
	}
	int variant = (int)r.below(6); // 0..2 modern, 3 legacy single ORDER, 4 no EXTENTS, 5 no PERIOD
	bool equal_orders = true; for (unsigned o : s.order) if (o != s.order[0]) equal_orders = false;
	if (variant == 3 && !equal_orders) variant = 0;
	s.legacy_single_order = variant == 3;
	s.has_extents = variant != 4;
	if (variant != 5) for (int d = 0; d < nd; d++) s.periods.push_back(r.coin(0.5) ? 0.0 : 0.25 * (double)r.below(200)); // exactly representable in the 15 digits a FITS double card carries
	if (s.has_extents && r.coin(0.7)) { for (int d = 0; d < nd; d++) { s.extents.push_back(s.knots[d][0] + r.U()); s.extents.push_back(s.knots[d].back() - r.U()); } count("tables-with-non-default-extents"); }
	int naux = r.coin(0.3) ? 0 : (int)r.below(41);
	{ std::set<std::string> usedk; for (int i = 0; i < naux; i++) { std::string k = AUXK[r.below(15)]; if (r.coin(0.5)) k += std::to_string(r.below(30)); if (k.size() > 8 && k.size() < 10) k += "XX"; if (usedk.count(k)) continue; usedk.insert(k);
		std::string v; int vk = (int)r.below(5); if (vk == 0) v = std::to_string((long)r.below(100000) - 50000); else if (vk == 1) { char b[40]; snprintf(b, 40, "%.12g", (r.U() - 0.5) * std::pow(10.0, r.range(-20, 20))); v = b; } else if (vk == 2) v = "text " + std::to_string(r.below(1000)); else if (vk == 3) v = "x"; else v = std::string(1 + r.below(40), 'a' + (char)r.below(26));
		if (r.coin(0.25)) { // strings that look like other FITS value types or are not in canonical numeric form
			static const char *odd[] = {"007", "+5", "-0", "0123456", "1e3", "1.0", "1.", ".5", "T", "F", "TRUE", "0x10", "1 2", "12 ", "a/b", "3 / 4", "NaN", "inf", "1D5", "-", "+", "00", "9223372036854775808", "1,5", "it is", "a=b", "(1,2)"};
			v = odd[r.below(sizeof(odd) / sizeof(odd[0]))]; count("aux-values-odd");
		}
		s.aux.push_back({k, v}); } }
	count("tables"); count("ndim:" + std::to_string(nd)); count("variant:" + std::string(variant == 3 ? "legacy-ORDER" : variant == 4 ? "no-EXTENTS" : variant == 5 ? "no-PERIOD" : "modern")); count("aux-keys", (long)s.aux.size());
	Snap want = snap_of_spec(s);
	// (1) a file produced by an independent writer in the documented layout loads to the specified table
	Table T; phase("read independent-writer file (cfitsio)");
	{ Bytes b = mkfits(s); bool ok = true; try { T.read_fits_mem(b.p, b.n); } catch (std::exception &e) { ok = false; viol("C06:read_fits_mem:independent-cfitsio-file-rejected", "{\"what\":" + jstr(e.what()) + ",\"table\":" + s.full_json() + "}"); } free(b.p); if (!ok) return; }
	std::string df = snap_diff(want, snap(T));
	if (!df.empty()) viol("C06:read_fits_mem:independent-cfitsio-file-misread:" + df, "{\"table\":" + s.full_json() + "}");
	{
		phase("read independent raw-encoder file");
		// the layout names its extensions (KNOTSn, EXTENTS) and does not prescribe their order: an independent writer may store them in any order
		std::vector<RawHDU> rh = raw_from_spec(s); bool shuffled = false;
		if (rh.size() > 2 && r.coin(0.45)) { for (size_t i = rh.size() - 1; i > 1; i--) std::swap(rh[i], rh[1 + r.below(i)]); shuffled = true; count("independent-raw-files-with-extensions-in-another-order"); }
		std::vector<unsigned char> raw = raw_encode(rh); (void)shuffled;
		Table T2; bool ok = true; std::string p = g_tmp + "/raw." + std::to_string(getpid()) + ".fits";
		bool disk = r.coin(0.3);
		try { if (disk) { write_file(p, raw.data(), raw.size()); T2.read_fits(p); } else T2.read_fits_mem(raw.data(), raw.size()); }
		catch (std::exception &e) { ok = false; viol("C06:read:independent-raw-file-rejected", "{\"what\":" + jstr(e.what()) + ",\"table\":" + s.full_json() + "}"); }
		if (disk) unlink(p.c_str());
		if (ok) { df = snap_diff(want, snap(T2)); if (!df.empty()) viol("C06:read:independent-raw-file-misread:" + df, "{\"table\":" + s.full_json() + "}"); count("independent-raw-files-read"); }
	}
	// keys added through the API carry no FITS padding: exercise them as well
	if (r.coin(0.6)) {
		static const char *odd[] = {"007", "+5", "-0", "0123456", "1e3", "1.0", "1.", ".5", "T", "F", "TRUE", "0x10", "1 2", "a/b", "3 / 4", "NaN", "inf", "1D5", "-", "+", "00", "9223372036854775808", "1,5", "it is", "a=b", "(1,2)", "  lead", "x"};
		int nk = 1 + (int)r.below(5);
		for (int i = 0; i < nk; i++) {
			std::string k = std::string("WK") + std::to_string(r.below(50)); if (r.coin(0.3)) k = "WRITTENLONGKEY" + std::to_string(r.below(9));
			try {
				switch (r.below(3)) { case 0: T.write_key(k.c_str(), std::string(odd[r.below(sizeof(odd) / sizeof(odd[0]))])); break; case 1: T.write_key(k.c_str(), (int)r.below(100000) - 50000); break; default: T.write_key(k.c_str(), (r.U() - 0.5) * 1e6); break; }
				count("aux-keys-added-through-write_key");
			} catch (std::exception &e) { note("write_key-refused-in-C06"); }
		}
	}
	// (2) library round trip
	bool disk = r.coin(0.5);
	std::vector<unsigned char> bytes;
	std::string path = g_tmp + "/rt." + std::to_string(getpid()) + ".fits";
	phase(disk ? "write_fits" : "write_fits_mem");
	try {
		if (disk) { T.write_fits(path); bytes = read_file(path); }
		else { auto w = T.write_fits_mem(); bytes.assign((unsigned char *)w.first, (unsigned char *)w.first + w.second); free(w.first); }
	} catch (std::exception &e) { viol(std::string("C06:") + (disk ? "write_fits" : "write_fits_mem") + ":threw-on-valid-table", "{\"what\":" + jstr(e.what()) + ",\"table\":" + s.full_json() + "}"); unlink(path.c_str()); return; }
	count(disk ? "roundtrips-disk" : "roundtrips-memory");
	Table R; phase(disk ? "read_fits" : "read_fits_mem");
	try { if (disk) R.read_fits(path); else R.read_fits_mem(bytes.data(), bytes.size()); }
	catch (std::exception &e) { viol("C06:roundtrip:own-output-rejected", "{\"what\":" + jstr(e.what()) + ",\"table\":" + s.full_json() + "}"); unlink(path.c_str()); return; }
	unlink(path.c_str());
	Snap st = snap(T), sr = snap(R);
	df = snap_diff(st, sr);
	if (!df.empty()) viol("C06:roundtrip:field-differs:" + df, "{\"table\":" + s.full_json() + "}");
	// a file name ending in .gz makes cfitsio compress the output; the reader recognises compressed files by content
	if (disk && r.coin(0.25)) {
		std::string gz = g_tmp + "/rt." + std::to_string(getpid()) + ".fits.gz"; phase("write_fits to a .gz name, read back"); bool okz = true; std::string wz;
		try { T.write_fits(gz); Table Rz; Rz.read_fits(gz); std::string dz = snap_diff(st, snap(Rz)); if (!dz.empty()) viol("C06:roundtrip(gzip):field-differs:" + dz, "{\"table\":" + s.full_json() + "}"); }
		catch (std::exception &e) { okz = false; wz = e.what(); }
		if (!okz) viol("C06:roundtrip(gzip):write-or-read-threw", "{\"what\":" + jstr(wz) + ",\"table\":" + s.brief() + "}"); else count("roundtrips-gzip");
		unlink(gz.c_str());
	}
	bool hasnan = false; for (float c : st.coef) if (std::isnan(c)) hasnan = true;
	if (!hasnan) { if (!(R == T) || (R != T)) viol("C06:roundtrip:operator==-false", "{\"table\":" + s.full_json() + "}"); count("equality-checks"); }
	else count("tables-with-NaN-coefficients(exempt-from-==)");
	uint64_t h = s.hash(); distinct(hash_mix(h, disk));
	// evaluation identical (bitwise)
	{
		std::vector<double> x(nd); std::vector<int> c(nd), c2(nd);
		for (int p = 0; p < 8; p++) {
			for (int d = 0; d < nd; d++) x[d] = s.knots[d][0] + (s.knots[d].back() - s.knots[d][0]) * r.U();
			bool o1 = T.searchcenters(x.data(), c.data()), o2 = R.searchcenters(x.data(), c2.data());
			if (o1 != o2 || (o1 && c != c2)) { viol("C06:roundtrip:lookup-differs", "{}"); break; }
			if (!o1) continue;
			double v1 = T.ndsplineeval<double>(x.data(), c.data(), 0), v2 = R.ndsplineeval<double>(x.data(), c.data(), 0);
			if (!biteq(v1, v2) && !(std::isnan(v1) && std::isnan(v2))) { viol("C06:roundtrip:evaluation-differs", "{\"a\":" + jnum(v1) + ",\"b\":" + jnum(v2) + "}"); break; }
			count("evaluation-identity-checks");
		}
	}
	// (3) the bytes follow the documented layout: cfitsio-free decoder
	{
		phase("raw decode of library output");
		Snap dec; std::string why;
		if (!decode_layout(bytes.data(), bytes.size(), dec, why)) viol("C06:layout:library-output-not-in-documented-layout", "{\"why\":" + jstr(why) + ",\"table\":" + s.full_json() + "}");
		else {
			count("layout-decodes");
			Snap cmp = st; // compare aux by value trimmed, ignore periods representation only if absent
			df = snap_diff(cmp, dec);
			if (!df.empty()) viol("C06:layout:independent-decoder-recovers-different-table:" + df, "{\"table\":" + s.full_json() + "}");
		}
	}
	if (cs % 16 == 0) sample("{\"table\":" + s.brief() + ",\"variant\":" + std::to_string(variant) + ",\"aux\":" + std::to_string(s.aux.size()) + ",\"backend\":" + jstr(disk ? "disk" : "memory") + ",\"bytes\":" + std::to_string(bytes.size()) + "}");
}
// golden digests of the shipped files: args --golden <file> --datadir <dir> ; case n = n-th line
static void run_C06golden(const Args &a, long cs) {
	std::string gp = a.extra.count("golden") ? a.extra.at("golden") : "", dd = a.extra.count("datadir") ? a.extra.at("datadir") : "";
	FILE *f = fopen(gp.c_str(), "r"); if (!f) { fprintf(stderr, "no golden file %s\n", gp.c_str()); _exit(2); }
	char name[512]; unsigned long long dig; long i = 0; bool found = false;
	while (fscanf(f, "%500s %llx", name, &dig) == 2) { if (i++ == cs) { found = true; break; } }
	fclose(f);
	if (!found) return;
	std::string path = dd + "/" + name;
	count("golden-files");
	Table T; phase("read shipped file");
	try { T.read_fits(path); } catch (std::exception &e) { viol(std::string("C06:golden:shipped-file-rejected:") + name, "{\"what\":" + jstr(e.what()) + "}"); return; }
	Snap s = snap(T); uint64_t d1 = snap_digest(s);
	std::vector<unsigned char> raw = read_file(path); Snap dec; std::string why;
	if (a.extra.count("print")) { bool okd = decode_layout(raw.data(), raw.size(), dec, why); printf("%s %llx\n", name, (unsigned long long)(okd ? snap_digest(dec) : d1)); if (!okd) fprintf(stderr, "%s: raw decode failed (%s), library digest used\n", name, why.c_str()); return; }
	if (!decode_layout(raw.data(), raw.size(), dec, why)) { note(std::string("golden-file-not-in-modern-layout:") + why); }
	else { if (snap_digest(dec) != (uint64_t)dig) { fprintf(stderr, "golden file %s changed on disk (raw digest %llx)\n", name, (unsigned long long)snap_digest(dec)); viol(std::string("C06:golden:file-bytes-changed:") + name, "{}"); return; } }
	if (d1 != (uint64_t)dig) viol(std::string("C06:golden:shipped-file-decodes-differently:") + name, "{\"digest\":\"" + std::to_string(d1) + "\"}");
	distinct(hash_mix(d1, cs));
	sample("{\"file\":" + jstr(name) + ",\"ndim\":" + std::to_string(s.ndim) + ",\"ncoeffs\":" + std::to_string(s.coef.size()) + "}");
}

// ================================================================ C07
struct Mut { std::string name; std::vector<unsigned char> bytes; bool expect_valid = false; };
static Spec small_spec(Rng &r) {
	Spec s; int nd = r.range(1, 4); size_t tot = 1;
	bool many = r.coin(0.15); if (many) nd = r.range(5, 7); // the evaluator objects are specialised per dimension count up to 8: keep every specialisation in the battery's reach
	for (int d = 0; d < nd; d++) { unsigned o = (unsigned)r.below(many ? 3 : 5); int nk = 2 * o + 2 + (int)r.below(many ? 2 : 5); s.order.push_back(o); s.knots.push_back(gen_knots(r, o, nk, (int)r.below(4), 1.0, r.U() * 4 - 2, false)); tot *= (size_t)(nk - o - 1); }
	s.coef.resize(tot); for (auto &c : s.coef) c = (float)(r.U() - 0.5);
	if (r.coin(0.3)) s.aux.push_back({"AKEY", "17"});
	if (r.coin(0.2)) { bool eq = true; for (unsigned o : s.order) if (o != s.order[0]) eq = false; s.legacy_single_order = eq; }
	if (r.coin(0.2)) s.has_extents = false;
	s.flavor = "small";
	return s;
}
static void resize_data(RawHDU &h, size_t bytes) { h.data.resize(bytes, 0); }
static Mut mutate(Rng &r, const Spec &s) {
	Mut m; std::vector<RawHDU> hd = raw_from_spec(s); int nd = s.ndim();
	int kind = (int)r.below(31);
	if (kind >= 24 && kind <= 26) {
		// a self-consistent file (NAXISn, ORDERn and the KNOTSn length all agree) whose knot count sits at or just below the admissible minimum 2*order+2
		Spec t = s; int d = (int)r.below(nd); unsigned o = 1 + (unsigned)r.below(5); t.order[d] = o;
		int nk = kind == 24 ? 2 * (int)o + 1 : kind == 25 ? (int)o + 2 + (int)r.below(o) : 2 * (int)o + 2;
		t.knots[d] = gen_knots(r, o, nk, 1, 1.0, r.U(), true); t.legacy_single_order = false;
		t.coef.assign(t.ncoef(), 0.5f);
		m.name = kind == 26 ? "self-consistent-minimum-knots" : (kind == 24 ? "self-consistent-one-knot-short" : "self-consistent-too-few-knots"); m.expect_valid = kind == 26;
		m.bytes = raw_encode(raw_from_spec(t));
		return m;
	}
	auto primary_count = [&](RawHDU &p) { long na = 0; card_long(p, "NAXIS", na); size_t c = na ? 1 : 0; for (long a = 1; a <= na; a++) { long v = 0; card_long(p, "NAXIS" + std::to_string(a), v); c *= (size_t)std::max(0L, v); } return c; };
	switch (kind) {
	case 0: m.name = "valid"; m.expect_valid = true; break;
	case 1: { int d = (int)r.below(nd); std::string k = s.legacy_single_order ? "ORDER" : "ORDER" + std::to_string(d); long vals[] = {-1, -2, 1000000, 2147483647L, 4294967295L, (long)s.order[d] + 1, (long)s.order[d] - 1, (long)s.order[d] + 7, 0};
		long v = vals[r.below(9)]; set_card(hd[0], k, card_int(k, v)); m.name = "ORDERn-value"; if (v == (long)s.order[d]) m.expect_valid = true; break; }
	case 2: { int d = (int)r.below(nd); std::string k = s.legacy_single_order ? "ORDER" : "ORDER" + std::to_string(d); const char *bad[] = {"'two'", "T", "2.5", "1E3", "", "0x2"}; set_card(hd[0], k, card_raw(k, bad[r.below(6)])); m.name = "ORDERn-non-integer"; break; }
	case 3: { int d = (int)r.below(nd); del_card(hd[0], s.legacy_single_order ? "ORDER" : "ORDER" + std::to_string(d)); m.name = "ORDERn-missing"; break; }
	case 4: { int ax = 1 + (int)r.below(nd); long v = 0; card_long(hd[0], "NAXIS" + std::to_string(ax), v); long nv[] = {v + 1, v - 1, 0, v + 5, 1, v * 2}; long w = nv[r.below(6)]; if (w < 0) w = 0; set_card(hd[0], "NAXIS" + std::to_string(ax), card_int("NAXIS" + std::to_string(ax), w)); resize_data(hd[0], primary_count(hd[0]) * 4); m.name = "NAXISn-resized-consistently"; break; }
	case 5: { int ax = 1 + (int)r.below(nd); long v = 0; card_long(hd[0], "NAXIS" + std::to_string(ax), v); long nv[] = {v + 1, 1000000, 2147483647L, 4294967296L, 99999999999L}; set_card(hd[0], "NAXIS" + std::to_string(ax), card_int("NAXIS" + std::to_string(ax), nv[r.below(5)])); m.name = "NAXISn-larger-than-data"; break; }
	case 6: { long na = r.coin(0.5) ? nd + 1 : std::max(0, nd - 1); set_card(hd[0], "NAXIS", card_int("NAXIS", na)); if (na > nd) { hd[0].cards.insert(hd[0].cards.begin() + 3 + nd, card_int("NAXIS" + std::to_string(na), 1 + (long)r.below(3))); } else if (nd >= 1) del_card(hd[0], "NAXIS" + std::to_string(nd)); resize_data(hd[0], primary_count(hd[0]) * 4); m.name = "NAXIS-dimension-count-changed"; break; }
	case 7: { long bp[] = {8, 16, 32, 64, -64}; long b = bp[r.below(5)]; size_t cnt = primary_count(hd[0]); set_card(hd[0], "BITPIX", card_int("BITPIX", b)); if (r.coin(0.7)) resize_data(hd[0], cnt * (size_t)(std::labs(b) / 8)); m.name = "primary-BITPIX"; break; }
	case 8: { int d = 1 + (int)r.below(nd); long bp[] = {8, 16, 32, 64, -32}; long b = bp[r.below(5)]; long n1 = 0; card_long(hd[d], "NAXIS1", n1); set_card(hd[d], "BITPIX", card_int("BITPIX", b)); if (r.coin(0.7)) resize_data(hd[d], (size_t)n1 * (size_t)(std::labs(b) / 8)); m.name = "knots-BITPIX"; break; }
	case 9: { int d = 1 + (int)r.below(nd); int kd = (int)r.below(4); if (kd == 0) set_card(hd[d], "EXTNAME", card_str("EXTNAME", "KNOTS" + std::to_string((d) % nd))); else if (kd == 1) del_card(hd[d], "EXTNAME"); else if (kd == 2) set_card(hd[d], "EXTNAME", card_str("EXTNAME", "KNOTZ")); else set_card(hd[d], "EXTNAME", card_str("EXTNAME", "KNOTS" + std::to_string(nd + 3))); m.name = "EXTNAME-renamed/duplicated/missing"; break; }
	case 10: { int d = 1 + (int)r.below(hd.size() - 1); hd.erase(hd.begin() + d); m.name = "extension-dropped"; if (!s.has_extents || d != (int)hd.size()) {} else m.expect_valid = false; break; }
	case 11: { if (hd.size() > 2) { size_t i = 1 + r.below(hd.size() - 1), j = 1 + r.below(hd.size() - 1); std::swap(hd[i], hd[j]); m.name = "extensions-reordered"; m.expect_valid = true; } else { m.name = "valid"; m.expect_valid = true; } break; }
	case 12: { int d = 1 + (int)r.below(nd); long n1 = 0; card_long(hd[d], "NAXIS1", n1); long nv[] = {n1 + 1, n1 - 1, n1 + 3, 1, 2, n1 * 2, 0}; long w = nv[r.below(7)]; if (w < 0) w = 0; set_card(hd[d], "NAXIS1", card_int("NAXIS1", w)); size_t old = hd[d].data.size(); hd[d].data.resize((size_t)w * 8, 0);
		for (size_t i = old; i + 8 <= hd[d].data.size(); i += 8) { double v = s.knots[d - 1].back() + 1 + (double)(i - old); std::vector<unsigned char> t; put_be(t, &v, 8); std::copy(t.begin(), t.end(), hd[d].data.begin() + i); } m.name = "knot-extension-resized-consistently"; break; }
	case 13: { int d = 1 + (int)r.below(nd); size_t n = hd[d].data.size() / 8; size_t i = r.below(n); double sp[] = {NAN, INFINITY, -INFINITY}; double v = sp[r.below(3)]; std::vector<unsigned char> t; put_be(t, &v, 8); std::copy(t.begin(), t.end(), hd[d].data.begin() + 8 * i); m.name = "knot-data-non-finite"; break; }
	case 14: { int d = 1 + (int)r.below(nd); size_t n = hd[d].data.size() / 8; int kd = (int)r.below(3);
		if (kd == 0 && n >= 2) { size_t i = r.below(n - 1); double a0 = get_be_d(&hd[d].data[8 * i]), a1 = get_be_d(&hd[d].data[8 * (i + 1)]); if (a0 == a1) a0 = a1 + 1; std::vector<unsigned char> t; put_be(t, &a1, 8); put_be(t, &a0, 8); std::copy(t.begin(), t.end(), hd[d].data.begin() + 8 * i); m.name = "knot-data-unsorted(swap)"; }
		else if (kd == 1) { std::vector<unsigned char> t; for (size_t i = 0; i < n; i++) { double v = (double)(n - i); put_be(t, &v, 8); } hd[d].data = t; m.name = "knot-data-decreasing"; if (n < 2) m.expect_valid = true; }
		else { std::vector<unsigned char> t; for (size_t i = 0; i < n; i++) { double v = 1.5; put_be(t, &v, 8); } hd[d].data = t; m.name = "knot-data-constant"; m.expect_valid = true; }
		break; }
	case 15: { if (s.has_extents) { RawHDU &e = hd.back(); long w = r.coin(0.5) ? 2 * nd + 1 : std::max(1, 2 * nd - 1); set_card(e, "NAXIS1", card_int("NAXIS1", w)); e.data.resize((size_t)w * 8, 0); m.name = "EXTENTS-wrong-length"; m.expect_valid = true; } else { m.name = "valid"; m.expect_valid = true; } break; }
	case 27: { // group / heap parameters in an image HDU: PCOUNT and GCOUNT change where cfitsio looks for the pixels and how large it takes the data unit to be
		size_t d = r.below(hd.size()); long pv[] = {1, 7, 360, 2147483647L, 99999999999L, -1}; long gv[] = {0, 2, 1000000L, -1};
		if (hd.size() > 1 && r.coin(0.35)) {
			// a data unit of negative size: cfitsio places the next HDU at datastart + round2880(|BITPIX|/8 * GCOUNT * (PCOUNT + NAXIS1)) without rejecting negative
			// counts; -2880 is the start of the very header just read (the walk over the extensions then finds the same HDU again), -5760 the record before it
			d = 1 + r.below(hd.size() - 1); long n1 = 0; card_long(hd[d], "NAXIS1", n1); long back = r.coin(0.7) ? 1 : 2; long want = 2880 * back + 2880 + 400 + (long)r.below(2000); // |size| in (2880*back + 2879, 2880*(back+1) + 2879]
			if (r.coin(0.5) && n1 > 0 && want / (8 * n1) >= 1 && (want / (8 * n1)) * 8 * n1 > 2880 * back + 2879) set_card(hd[d], "GCOUNT", card_int("GCOUNT", -(want / (8 * n1))));
			else set_card(hd[d], "PCOUNT", card_int("PCOUNT", -(want / 8) - n1));
			if (r.coin(0.3)) set_card(hd[d], "EXTNAME", card_str("EXTNAME", "KNOTS9")); // (the reader has to walk over it rather than stop at it)
			m.name = "PCOUNT/GCOUNT-value:data-unit-of-negative-size"; break;
		}
		if (r.coin(0.6)) { long v = pv[r.below(6)]; if (d == 0) hd[0].cards.push_back(card_int("PCOUNT", v)); else set_card(hd[d], "PCOUNT", card_int("PCOUNT", v)); }
		else { long v = gv[r.below(4)]; if (d == 0) hd[0].cards.push_back(card_int("GCOUNT", v)); else set_card(hd[d], "GCOUNT", card_int("GCOUNT", v)); }
		if (d == 0 && r.coin(0.5)) hd[0].cards.push_back(card_log("GROUPS", true));
		m.name = "PCOUNT/GCOUNT-value"; break; }
	case 28: { // a knot or extents extension declared with two axes (NAXIS1 as before, NAXIS2 = 1, 2 or 3: data resized to match or not)
		size_t d = 1 + r.below(hd.size() - 1); long n1 = 0; card_long(hd[d], "NAXIS1", n1); long n2 = 1 + (long)r.below(3);
		set_card(hd[d], "NAXIS", card_int("NAXIS", 2)); for (size_t ci = 0; ci < hd[d].cards.size(); ci++) if (card_key(hd[d].cards[ci]) == "NAXIS1") { hd[d].cards.insert(hd[d].cards.begin() + ci + 1, card_int("NAXIS2", n2)); break; }
		if (r.coin(0.7)) hd[d].data.resize((size_t)n1 * (size_t)n2 * 8, 0);
		m.name = "extension-with-two-axes"; break; }
	case 29: { // an integer keyword whose value is a long string of garbage (cfitsio formats an error message around it)
		int d = (int)r.below(nd); std::string k = s.legacy_single_order ? "ORDER" : "ORDER" + std::to_string(d); size_t len = 20 + r.below(45); std::string junk; for (size_t i = 0; i < len; i++) junk += (char)('A' + r.below(26));
		int form = (int)r.below(4);
		if (form == 3) { hd[0].cards.push_back(pad80(k + std::string(8 - std::min<size_t>(8, k.size()), ' ') + "= " + std::string(len, '9'))); m.name = "ORDERn-duplicated-with-long-garbage-value"; break; } // the valid card stays, a second one with the same keyword follows
		set_card(hd[0], k, form == 0 ? card_str(k, junk) : form == 1 ? pad80(k + std::string(8 - std::min<size_t>(8, k.size()), ' ') + "= " + junk) : pad80(k + std::string(8 - std::min<size_t>(8, k.size()), ' ') + "= " + std::string(len, '9')));
		m.name = "ORDERn-long-garbage-value"; break; }
	case 30: { // self-consistent table with 10..20 dimensions of one coefficient each (cfitsio's pixel routines handle at most 9 axes)
		Spec t; int nd2 = 10 + (int)r.below(11); for (int d = 0; d < nd2; d++) { t.order.push_back(0); t.knots.push_back({0.0 + d, 1.0 + d}); } t.coef.assign(1, 0.5f); t.flavor = "many-dims";
		hd = raw_from_spec(t); m.name = "self-consistent-more-than-9-dimensions"; break; }
	default: break;
	}
	m.bytes = raw_encode(hd);
	if (kind >= 16 && kind <= 23) {
		std::vector<unsigned char> &b = m.bytes;
		switch (kind) {
		case 16: { size_t hdr = 2880; int n = 1 + (int)r.below(3); for (int i = 0; i < n; i++) { size_t pos = r.below(std::min(b.size(), hdr)); b[pos] ^= (unsigned char)(1u << r.below(8)); } m.name = "bit-flip-in-primary-header"; break; }
		case 17: { int n = 1 + (int)r.below(4); for (int i = 0; i < n; i++) b[r.below(b.size())] ^= (unsigned char)(1u << r.below(8)); m.name = "bit-flips-anywhere"; break; }
		case 18: { int n = 1 + (int)r.below(8); for (int i = 0; i < n; i++) b[r.below(b.size())] = (unsigned char)r.below(256); m.name = "byte-overwrites"; break; }
		case 19: { size_t nb = b.size() / 2880; size_t cut = r.below(nb + 1) * 2880; if (r.coin(0.5)) cut = std::min(b.size(), cut + 80 * r.below(36)); b.resize(cut); m.name = "truncated-at-card/block-boundary"; break; }
		case 20: { b.resize(r.below(b.size() + 1)); m.name = "truncated-at-random-byte"; break; }
		case 21: { // not a spline table at all
			int kd = (int)r.below(4); std::vector<RawHDU> o;
			if (kd == 0) { RawHDU p; p.cards = {card_log("SIMPLE", true), card_int("BITPIX", 8), card_int("NAXIS", 0), card_log("EXTEND", true)}; o.push_back(p); RawHDU t; t.cards = {card_str("XTENSION", "BINTABLE"), card_int("BITPIX", 8), card_int("NAXIS", 2), card_int("NAXIS1", 8), card_int("NAXIS2", 3), card_int("PCOUNT", 0), card_int("GCOUNT", 1), card_int("TFIELDS", 1), card_str("TFORM1", "1D")}; t.data.resize(24, 0); o.push_back(t); m.name = "not-a-spline:NAXIS=0+bintable"; }
			else if (kd == 1) { RawHDU p; p.cards = {card_log("SIMPLE", true), card_int("BITPIX", -32), card_int("NAXIS", 2), card_int("NAXIS1", 5), card_int("NAXIS2", 4)}; p.data.resize(80, 0); o.push_back(p); m.name = "not-a-spline:plain-image"; }
			else if (kd == 2) { RawHDU p; p.cards = {card_log("SIMPLE", true), card_int("BITPIX", 16), card_int("NAXIS", 1), card_int("NAXIS1", 10), card_int("ORDER0", 2)}; p.data.resize(20, 0); o.push_back(p); m.name = "not-a-spline:image-with-ORDER-but-no-knots"; }
			else { RawHDU p; p.cards = {card_log("SIMPLE", true), card_int("BITPIX", -32), card_int("NAXIS", 1), card_int("NAXIS1", 3), card_int("ORDER0", 0)}; p.data.resize(12, 0); RawHDU k; k.cards = {card_str("XTENSION", "BINTABLE"), card_int("BITPIX", 8), card_int("NAXIS", 2), card_int("NAXIS1", 8), card_int("NAXIS2", 4), card_int("PCOUNT", 0), card_int("GCOUNT", 1), card_int("TFIELDS", 1), card_str("TFORM1", "1D"), card_str("EXTNAME", "KNOTS0")}; k.data.resize(32, 0); o.push_back(p); o.push_back(k); m.name = "not-a-spline:KNOTS0-is-a-bintable"; }
			b = raw_encode(o); break; }
		case 22: { b.clear(); if (r.coin(0.5)) { size_t n = r.below(6000); for (size_t i = 0; i < n; i++) b.push_back((unsigned char)r.below(256)); m.name = "random-bytes"; } else m.name = "empty-file"; break; }
		default: { // duplicate header cards / inject structural keywords
			std::vector<RawHDU> h2 = raw_from_spec(s); const char *inj[] = {"BSCALE", "BZERO", "BLANK", "NAXIS1", "BITPIX", "EXTEND", "ORDER0", "END"};
			std::string k = inj[r.below(8)]; long vals[] = {0, 2, -1, 7}; h2[r.below(h2.size())].cards.push_back(k == "END" ? pad80("END") : card_int(k, vals[r.below(4)])); b = raw_encode(h2); m.name = "injected-card:" + k; m.expect_valid = false; break; }
		}
	}
	return m;
}
// well-formedness of a table a read returned
template <class TT> static std::string wellformed(const TT &T) {
	unsigned nd = T.get_ndim(); if (nd == 0) return "ndim==0 after successful read";
	uint64_t tot = 1;
	for (unsigned d = 0; d < nd; d++) {
		uint64_t nk = T.get_nknots(d), na = T.get_ncoeffs(d); unsigned o = T.get_order(d);
		if (na != nk - o - 1 || nk < (uint64_t)o + 1) return "naxes!=nknots-order-1";
		if (na < (uint64_t)o + 1) return "naxes<order+1";
		const double *k = T.get_knots(d);
		for (uint64_t i = 0; i < nk; i++) { if (!std::isfinite(k[i])) return "non-finite-knot"; if (i && k[i] < k[i - 1]) return "decreasing-knots"; }
		tot *= na;
	}
	if (T.get_ncoeffs() != tot) return "ncoeffs!=prod(naxes)";
	uint64_t st = 1; for (int d = (int)nd - 1; d >= 0; d--) { if (T.get_stride(d) != st) return "strides-inconsistent"; st *= T.get_ncoeffs(d); }
	return "";
}
static int run_tool(const std::string &bin, const std::vector<std::string> &args, int &sig) {
	pid_t p = fork();
	if (p == 0) {
		int fd = open("/dev/null", O_WRONLY); dup2(fd, 1); dup2(fd, 2);
		std::vector<char *> av; av.push_back((char *)bin.c_str()); for (auto &a : args) av.push_back((char *)a.c_str()); av.push_back(nullptr);
		execv(bin.c_str(), av.data()); _exit(127);
	}
	int st = 0; waitpid(p, &st, 0);
	sig = WIFSIGNALED(st) ? WTERMSIG(st) : 0;
	return WIFEXITED(st) ? WEXITSTATUS(st) : -1;
}
static void run_C07(const Args &a, long cs) {
	Rng r(a.seed, "C07", cs);
	Spec s = small_spec(r);
	Mut m = mutate(r, s);
	if (cs % 40 == 17) {
		// an untouched, well-formed table one dimension of which has a spline order far above the usual (ORDERn is whatever the file says): everything the
		// battery does on it - second derivatives included - has to come back
		Spec t; int nd = r.range(1, 2);
		for (int d = 0; d < nd; d++) { unsigned o = d == 0 ? (unsigned)r.range(28, 44) : (unsigned)r.below(3); int nk = 2 * (int)o + 2 + (int)r.below(4); t.order.push_back(o); t.knots.push_back(gen_knots(r, o, nk, (int)r.below(2), 1.0, r.U() * 4 - 2, true)); }
		t.coef.resize(t.ncoef()); for (auto &c : t.coef) c = (float)(r.U() - 0.5); t.flavor = "high-order";
		s = t; m = Mut(); m.name = "none:well-formed-table-of-high-order"; m.expect_valid = true; m.bytes = raw_encode(raw_from_spec(t));
	}
	count("mutants"); count("mutation:" + m.name.substr(0, m.name.find(':')));
	uint64_t h = 5; for (unsigned char c : m.bytes) h = h * 1099511628211ULL ^ c; distinct(hash_mix(h, m.bytes.size()));
	std::string path = g_tmp + "/m." + std::to_string(getpid()) + ".fits";
	write_file(path, m.bytes.data(), m.bytes.size());
	Spec good = small_spec(r); Bytes gb = mkfits(good); Snap gsnap = snap_of_spec(good);
	std::string mj = "{\"mutation\":" + jstr(m.name) + ",\"size\":" + std::to_string(m.bytes.size()) + ",\"base\":" + s.full_json() + "}";
	int entry = (int)(cs % 5);
	const char *ename[] = {"read_fits_mem", "read_fits", "path-constructor", "C:readsplinefitstable_mem", "C:readsplinefitstable"};
	bool accepted = false;
	if (entry <= 2) {
		Table *T = nullptr; bool ok = false;
		phasef(std::string(ename[entry]) + " of " + m.name);
		try {
			if (entry == 0) { T = new Table(); std::vector<unsigned char> cp = m.bytes; if (cp.empty()) cp.push_back(0); T->read_fits_mem(cp.data(), m.bytes.size()); ok = true; }
			else if (entry == 1) { T = new Table(); T->read_fits(path); ok = true; }
			else { T = new Table(path); ok = true; }
		} catch (std::exception &e) { ok = false; }
		accepted = ok;
		if (!ok) {
			count("reads-failed");
			if (T) {
				if (T->get_ndim() != 0) viol(std::string("C07:") + ename[entry] + ":failed-read-left-object-non-empty", mj);
				// reusable: a valid file must now load into the same object
				phasef(std::string(ename[entry]) + " reuse after failure of " + m.name);
				try { T->read_fits_mem(gb.p, gb.n); std::string df = snap_diff(gsnap, snap(*T)); if (!df.empty()) viol(std::string("C07:") + ename[entry] + ":object-not-reusable-after-failed-read:" + df, mj); count("reuse-after-failure-checks"); }
				catch (std::exception &e) { viol(std::string("C07:") + ename[entry] + ":object-not-reusable-after-failed-read:threw", "{\"what\":" + jstr(e.what()) + ",\"m\":" + mj + "}"); }
				phasef(std::string(ename[entry]) + " destroy after failure of " + m.name);
				delete T; T = nullptr;
			}
		} else {
			count("reads-succeeded");
			std::string wf = wellformed(*T);
			if (!wf.empty()) viol(std::string("C07:") + ename[entry] + ":accepted-malformed:" + wf, mj);
			else { battery_full(*T, r, "C07", ename[entry]); count("batteries-run"); }
			phasef(std::string(ename[entry]) + " destroy of " + m.name);
			delete T;
		}
	} else {
		splinetable h; h.data = nullptr; int rc;
		phasef(std::string(ename[entry]) + " of " + m.name);
		if (entry == 3) { std::vector<unsigned char> cp = m.bytes; if (cp.empty()) cp.push_back(0); splinetable_buffer sb; sb.data = cp.data(); sb.size = m.bytes.size(); rc = readsplinefitstable_mem(&sb, &h); }
		else rc = readsplinefitstable(path.c_str(), &h);
		accepted = rc == 0;
		if (rc != 0) {
			count("reads-failed");
			// reusable + safely destructible
			phasef(std::string(ename[entry]) + " reuse after failure of " + m.name);
			splinetable_buffer sb; sb.data = gb.p; sb.size = gb.n;
			int rc2 = readsplinefitstable_mem(&sb, &h);
			if (rc2 != 0) viol(std::string("C07:") + ename[entry] + ":handle-not-reusable-after-failed-read", mj);
			else { auto *T = static_cast<Table *>(h.data); std::string df = snap_diff(gsnap, snap(*T)); if (!df.empty()) viol(std::string("C07:") + ename[entry] + ":handle-not-reusable-after-failed-read:" + df, mj); count("reuse-after-failure-checks"); }
		} else {
			count("reads-succeeded");
			auto *T = static_cast<Table *>(h.data);
			std::string wf = wellformed(*T);
			if (!wf.empty()) viol(std::string("C07:") + ename[entry] + ":accepted-malformed:" + wf, mj);
			else { battery_full(*T, r, "C07", ename[entry]); count("batteries-run"); }
		}
		phasef(std::string(ename[entry]) + " free after " + m.name);
		splinetable_free(&h);
	}
	if (m.expect_valid && !accepted) note("structurally-valid-mutant-rejected:" + m.name.substr(0, m.name.find(':')));
	count(accepted ? "accepted:" + m.name.substr(0, m.name.find(':')) : "rejected:" + m.name.substr(0, m.name.find(':')));
	// CLI tools: exit status must be non-zero when the library rejects, and they must never die on a signal.
	// The tools read the file from disk: their verdict is held against the disk reader's (the memory reader additionally checks the declared
	// data units against the buffer size and may reject a file the disk reader accepts).
	if (a.extra.count("eval") && cs % 3 == 0) {
		if (entry == 0 || entry == 3) { Table Td; phasef(std::string("read_fits (for the tools' expectation) of ") + m.name); try { Td.read_fits(path); accepted = true; } catch (std::exception &e) { accepted = false; } if (accepted) { std::string wf = wellformed(Td); if (!wf.empty()) viol("C07:read_fits:accepted-malformed:" + wf, mj); } }
		int sig = 0; std::vector<std::string> av{path}; for (int d = 0; d < s.ndim(); d++) { char b[40]; snprintf(b, 40, "%.17g", s.knots[d][s.order[d]] + 0.3 * (s.knots[d][s.order[d] + 1] - s.knots[d][s.order[d]])); av.push_back(b); }
		phase("photospline-eval"); int rc = run_tool(a.extra.at("eval"), av, sig); count("tool-runs:photospline-eval");
		if (sig) viol("C07:photospline-eval:died-on-signal:" + std::to_string(sig), mj);
		else if (!accepted && rc == 0) viol("C07:photospline-eval:exit-0-on-rejected-file", mj);
		phase("photospline-inspect"); rc = run_tool(a.extra.at("inspect"), {path}, sig); count("tool-runs:photospline-inspect");
		if (sig) viol("C07:photospline-inspect:died-on-signal:" + std::to_string(sig), mj);
		else if (!accepted && rc == 0) viol("C07:photospline-inspect:exit-0-on-rejected-file", mj);
	}
	// the size estimator parses the same file through its own code: whatever it is given it returns or throws
	if (cs % 2 == 0) { phasef(std::string("estimateMemory of ") + m.name); try { size_t e = Table::estimateMemory(path, 1 + (uint32_t)r.below(3), 0); (void)e; count("estimateMemory-on-hostile-file:returned"); } catch (std::exception &e) { count("estimateMemory-on-hostile-file:threw"); } }
	free(gb.p); unlink(path.c_str());
	if (cs % 40 == 0) sample("{\"mutation\":" + jstr(m.name) + ",\"entry\":" + jstr(ename[entry]) + ",\"accepted\":" + (accepted ? "true" : "false") + ",\"bytes\":" + std::to_string(m.bytes.size()) + "}");
	// leaks (failed reads must release what they allocated)
	std::string lk = leak_check(g_tmp);
	if (!lk.empty()) { viol(std::string("C07:") + ename[entry] + ":leak:" + lk, mj); finish_early_and_exit(); }
}

int main(int argc, char **argv) {
	Args a = parse_args(argc, argv);
	open_out(a.outpath);
	g_tmp = a.tmpdir;
	for (long cs = a.from; cs < a.to; cs++) {
		begin_case(cs);
		if (a.prop == "C06") run_C06(a, cs);
		else if (a.prop == "C06golden") { prop_id() = "C06"; run_C06golden(a, cs); }
		else if (a.prop == "C07") run_C07(a, cs);
		else if (a.prop == "C07corpus") { // seed corpus for the coverage-guided pass: valid small tables (both independent writers) and one mutant of each
			Rng r(a.seed, "C07corpus", cs); Spec s = small_spec(r); std::string b = g_tmp + "/seed_" + std::to_string(cs);
			{ std::vector<unsigned char> raw = raw_encode(raw_from_spec(s)); write_file(b + "_raw.fits", raw.data(), raw.size()); }
			{ Bytes m = mkfits(s); write_file(b + "_cfitsio.fits", m.p, m.n); free(m.p); }
			{ Mut m = mutate(r, s); if (m.bytes.size() <= 60000) write_file(b + "_mut.fits", m.bytes.data(), m.bytes.size()); }
			count("corpus-files", 3);
		}
		else { fprintf(stderr, "unknown mode %s\n", a.prop.c_str()); return 2; }
	}
	finish();
	fflush(stdout);
	_exit(0); // leak checking is done per case; skip the at-exit pass (cfitsio keeps global tables)
}
