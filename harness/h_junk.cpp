// h_junk.cpp - independence of every observable result from the content of uninitialised heap memory (modes C06junk, C07junk, C09junk, C14junk, C15junk, C16junk, C17junk, C19junk).
// ASan/UBSan do not see reads of uninitialised memory, MemorySanitizer needs every dependency instrumented, and memcheck drowns in cfitsio's scans of fresh
// buffers. This monitor decides the same question by intervention instead: malloc/realloc are defined in the harness executable (libstdc++, cfitsio, CHOLMOD
// and the C fitter reach them through the PLT) and fill every fresh byte - new blocks and the grown tail of reallocated ones - with a chosen pattern while a
// library call runs. The same call sequence is executed with a clean heap and with each pattern; every observable result (all getters, evaluation, written
// bytes, grid results, fitted coefficients) must be bit-identical. A field the library never initialises (extents of a file without EXTENTS, periods after a
// fit, strides after a permutation, padding written to a file ...) takes the pattern's value in one run and another in the next.
// Production flags only: the sanitizers bring their own allocator.
#include "vf_spec.h"
#include <malloc.h>
#include <numeric>

using namespace vf;
typedef photospline::splinetable<> Table;

extern "C" void *__libc_malloc(size_t);
extern "C" void *__libc_realloc(void *, size_t);
static int g_junk = 0; // 0 = off (harness bookkeeping), 1 = zeros, 2 = blanks, 3 = 0xFF, 4 = stale FITS bytes, 5 = "END" cards, 6 = counter-based noise, 7 = 0x7F (large positive ints / NaN-free floats)
static const unsigned char *g_stale = nullptr; static size_t g_stale_n = 0; static long g_filled_blocks = 0, g_filled_bytes = 0;
static void junk_fill(unsigned char *p, size_t from, size_t to) {
	if (!g_junk || to <= from) return;
	g_filled_blocks++; g_filled_bytes += (long)(to - from);
	switch (g_junk) {
	case 1: memset(p + from, 0, to - from); break;
	case 2: memset(p + from, 0x20, to - from); break;
	case 3: memset(p + from, 0xFF, to - from); break;
	case 4: if (g_stale_n) { for (size_t i = from; i < to; i++) p[i] = g_stale[i % g_stale_n]; } else memset(p + from, 0x41, to - from); break;
	case 5: { static const char card[81] = "END                                                                             "; for (size_t i = from; i < to; i++) p[i] = (unsigned char)card[i % 80]; break; }
	case 6: { uint64_t s = 0x9E3779B97F4A7C15ULL * (uint64_t)(from + 1) ^ (uint64_t)(uintptr_t)p; for (size_t i = from; i < to; i++) { s = s * 6364136223846793005ULL + 1442695040888963407ULL; p[i] = (unsigned char)(s >> 56); } break; }
	default: memset(p + from, 0x7F, to - from); break;
	}
}
extern "C" void *malloc(size_t n) { void *p = __libc_malloc(n); if (p && g_junk) junk_fill((unsigned char *)p, 0, n); return p; }
extern "C" void *realloc(void *o, size_t n) { size_t old = o ? malloc_usable_size(o) : 0; void *p = __libc_realloc(o, n); if (p && g_junk && n > old) junk_fill((unsigned char *)p, old, n); return p; }
struct Junk { int saved; Junk(int m) : saved(g_junk) { g_junk = m; } ~Junk() { g_junk = saved; } }; // a library call runs with pattern m
static const char *junk_name(int m) { static const char *n[] = {"off", "zeros", "blanks", "0xFF", "stale-FITS-bytes", "END-cards", "noise", "0x7F"}; return n[m]; }
static const int NJUNK = 8;

static std::string g_tmp;
static bool write_file(const std::string &p, const void *d, size_t n) { FILE *f = fopen(p.c_str(), "wb"); if (!f) return false; bool ok = n == 0 || fwrite(d, 1, n, f) == n; fclose(f); return ok; }
static bool read_file(const std::string &p, std::vector<unsigned char> &o) { FILE *f = fopen(p.c_str(), "rb"); if (!f) return false; o.clear(); unsigned char b[65536]; size_t n; while ((n = fread(b, 1, sizeof b, f)) > 0) o.insert(o.end(), b, b + n); fclose(f); return true; }

// everything a user can observe on a table, as a list of (label, digest) so that a difference names the field
typedef std::vector<std::pair<std::string, uint64_t>> Obs;
static void observe_table(const Table &T, Obs &o, Rng r /* by value: same points for every run */) {
	unsigned nd = T.get_ndim(); o.push_back({"ndim", nd}); if (!nd) return;
	uint64_t h;
	h = 1; for (unsigned d = 0; d < nd; d++) h = hash_mix(h, T.get_order(d)); o.push_back({"order", h});
	h = 2; for (unsigned d = 0; d < nd; d++) { h = hash_mix(h, T.get_nknots(d)); for (uint64_t i = 0; i < T.get_nknots(d); i++) h = hash_d(h, T.get_knot(d, i)); } o.push_back({"knots", h});
	h = 3; for (unsigned d = 0; d < nd; d++) h = hash_mix(h, T.get_ncoeffs(d)); o.push_back({"naxes", h});
	h = 4; for (unsigned d = 0; d < nd; d++) h = hash_mix(h, T.get_stride(d)); o.push_back({"strides", h});
	h = 5; for (unsigned d = 0; d < nd; d++) { h = hash_d(h, T.lower_extent(d)); h = hash_d(h, T.upper_extent(d)); } o.push_back({"extents", h});
	h = 6; for (unsigned d = 0; d < nd; d++) h = hash_d(h, T.get_period(d)); o.push_back({"periods", h});
	h = 7; { const float *c = T.get_coefficients(); for (uint64_t i = 0; i < T.get_ncoeffs(); i++) { uint32_t u; memcpy(&u, c + i, 4); h = hash_mix(h, u); } } o.push_back({"coefficients", h});
	h = 8; for (size_t i = 0; i < T.get_naux_values(); i++) { const char *k = T.get_aux_key(i); h = hash_mix(h, hash_str(k ? k : "<null>")); const char *v = k ? T.get_aux_value(k) : nullptr; h = hash_mix(h, hash_str(v ? v : "<null>")); } o.push_back({"aux", h});
	// evaluation (value, derivative, gradient, evaluator object) at points in and around the knot range
	std::vector<double> x(nd); std::vector<int> c(nd); auto E = T.get_evaluator<float>(); uint64_t hv = 9, hc = 10;
	for (int p = 0; p < 6; p++) {
		for (unsigned d = 0; d < nd; d++) { const double *k = T.get_knots(d); uint64_t nk = T.get_nknots(d); x[d] = r.coin(0.2) ? k[r.below(nk)] : k[0] + (k[nk - 1] - k[0]) * (r.U() * 1.1 - 0.05); }
		bool f = T.searchcenters(x.data(), c.data()); hc = hash_mix(hc, f); hv = hash_d(hv, T(x.data())); hv = hash_d(hv, E(x.data(), 0));
		if (!f) continue; for (unsigned d = 0; d < nd; d++) hc = hash_mix(hc, (uint64_t)c[d]);
		hv = hash_d(hv, T.ndsplineeval<double>(x.data(), c.data(), 0)); hv = hash_d(hv, T.ndsplineeval<double>(x.data(), c.data(), 1u << r.below(std::min(nd, 6u))));
		if (nd < 8) { std::vector<double> g(nd + 1); T.ndsplineeval_gradient(x.data(), c.data(), g.data()); for (double v : g) hv = hash_d(hv, v); }
	}
	o.push_back({"searchcenters", hc}); o.push_back({"evaluation", hv});
}
static uint64_t bytes_digest(const void *p, size_t n) { uint64_t h = hash_mix(11, n); const unsigned char *b = (const unsigned char *)p; size_t i = 0; for (; i + 8 <= n; i += 8) { uint64_t v; memcpy(&v, b + i, 8); h = hash_mix(h, v); } for (; i < n; i++) h = hash_mix(h, b[i]); return h; }
// digest of what a FITS stream *means*: cards up to END and data units, via the cfitsio-free decoder (the fill behind END is not part of it)
static uint64_t fits_meaning_digest(const void *p, size_t n) { std::vector<RawHDU> hd; std::string why; if (!raw_decode((const unsigned char *)p, n, hd, &why)) return hash_str("undecodable:" + why); uint64_t h = 12; for (auto &u : hd) { for (auto &c : u.cards) h = hash_mix(h, hash_str(c)); h = hash_mix(h, bytes_digest(u.data.data(), u.data.size())); } return h; }
static uint64_t sparse_digest(const photospline::ndsparse &n) { uint64_t h = hash_mix(5, n.rows); h = hash_mix(h, n.ndim); for (size_t d = 0; d < n.ndim; d++) h = hash_mix(h, n.ranges[d]); for (size_t q = 0; q < n.rows; q++) { for (size_t d = 0; d < n.ndim; d++) h = hash_mix(h, n.i[d][q]); h = hash_d(h, n.x[q]); } return h; }

// ---------------------------------------------------------------- the scenarios: each returns the list of observations of one run
struct Scenario { Spec s; Bytes file; std::string path, outpath; std::vector<size_t> perm; unsigned cdim = 0; std::vector<double> tau; bool conv_ok = false; std::vector<std::vector<double>> grid; uint64_t pseed; int variant = 0; };
static Obs run_table_scenario(const Scenario &sc, const std::string &mode, int junk) {
	Obs o; Rng rp(sc.pseed, "junkpoints", 0);
	std::unique_ptr<Table> T;
	{ Junk j(junk); T.reset(new Table); if (sc.variant == 0) T->read_fits_mem(sc.file.p, sc.file.n); else if (sc.variant == 1) T->read_fits(sc.path); else { T.reset(new Table(sc.path)); } }
	observe_table(*T, o, rp);
	if (mode == "C06junk") {
		std::pair<void *, size_t> w(nullptr, 0); { Junk j(junk); w = T->write_fits_mem(); }
		o.push_back({"write_fits_mem:bytes", bytes_digest(w.first, w.second)}); o.push_back({"write_fits_mem:meaning", fits_meaning_digest(w.first, w.second)});
		{ std::unique_ptr<Table> R; { Junk j(junk); R.reset(new Table); R->read_fits_mem(w.first, w.second); } Obs o2; observe_table(*R, o2, rp); for (auto &kv : o2) o.push_back({"reread:" + kv.first, kv.second}); o.push_back({"reread:operator==", (uint64_t)(*R == *T)}); }
		free(w.first);
		unlink(sc.outpath.c_str()); { Junk j(junk); T->write_fits(sc.outpath); } std::vector<unsigned char> fb; read_file(sc.outpath, fb); unlink(sc.outpath.c_str());
		o.push_back({"write_fits:bytes", bytes_digest(fb.data(), fb.size())}); o.push_back({"write_fits:meaning", fits_meaning_digest(fb.data(), fb.size())});
		{ Junk j(junk); T->write_key("ADDED", 12.5); T->write_key("KEY0", "replaced"); T->remove_key("ADDED"); } Obs o3; observe_table(*T, o3, rp); for (auto &kv : o3) if (kv.first == "aux") o.push_back({"after-key-edits:aux", kv.second});
	} else if (mode == "C19junk") { // the estimate itself (it reads the file through cfitsio) and the load + convolution it speaks about
		size_t e1 = 0, e2 = 0; { Junk j(junk); e1 = Table::estimateMemory(sc.path, 1, 0); e2 = Table::estimateMemory(sc.path, (uint32_t)sc.tau.size(), sc.cdim); } o.push_back({"estimateMemory(load)", e1}); o.push_back({"estimateMemory(convolution)", e2});
		if (sc.conv_ok) { { Junk j(junk); T->convolve(sc.cdim, sc.tau.data(), sc.tau.size()); } Obs o2; observe_table(*T, o2, rp); for (auto &kv : o2) o.push_back({"convolved:" + kv.first, kv.second}); }
	} else if (mode == "C16junk") { // a fixed history of key edits and round trips; the store is observed after every step
		static const char *ks[] = {"KEY0", "NEWKEY", "A_LONGER_KEYWORD", "KEY1", "ANOTHER_LONG_KEYWORD_OF_FORTY_CHARACTERS_X", "Z"}; Rng rk(sc.pseed, "junkkeys", 3);
		for (int step = 0; step < 14; step++) { int what = (int)rk.below(6); std::string k = ks[rk.below(6)]; bool threw = false; uint64_t ret = 0;
			{ Junk j(junk); try { switch (what) { case 0: T->write_key(k.c_str(), (int)rk.below(100000)); break; case 1: T->write_key(k.c_str(), (rk.U() - 0.5) * 1e7); break; case 2: T->write_key(k.c_str(), std::string(1 + rk.below(30), (char)('a' + rk.below(26))) + (rk.coin(0.3) ? "'s" : "")); break; case 3: ret = T->remove_key(k.c_str()); break;
				case 4: { int iv = -1; double dv = -1; std::string sv; ret = (uint64_t)T->read_key(k.c_str(), iv) * 4 + (uint64_t)T->read_key(k.c_str(), dv) * 2 + (uint64_t)T->read_key(k.c_str(), sv); ret = hash_mix(ret, (uint64_t)iv); ret = hash_d(ret, dv); ret = hash_mix(ret, hash_str(sv)); break; }
				default: { auto w = T->write_fits_mem(); std::unique_ptr<Table> R(new Table); R->read_fits_mem(w.first, w.second); ret = fits_meaning_digest(w.first, w.second); free(w.first); T = std::move(R); break; } } } catch (std::exception &) { threw = true; } }
			uint64_t h = hash_mix(ret, threw); for (size_t i = 0; i < T->get_naux_values(); i++) { const char *kk = T->get_aux_key(i); h = hash_mix(h, hash_str(kk ? kk : "<null>")); const char *v = kk ? T->get_aux_value(kk) : nullptr; h = hash_mix(h, hash_str(v ? v : "<null>")); }
			o.push_back({"key-history:step" + std::to_string(step) + ":op" + std::to_string(what), h}); }
	} else if (mode == "C15junk") {
		{ Junk j(junk); T->permuteDimensions(sc.perm); } Obs o2; observe_table(*T, o2, rp); for (auto &kv : o2) o.push_back({"permuted:" + kv.first, kv.second});
		std::pair<void *, size_t> w(nullptr, 0); { Junk j(junk); w = T->write_fits_mem(); } o.push_back({"permuted:write_fits_mem:meaning", fits_meaning_digest(w.first, w.second)}); free(w.first);
		{ Junk j(junk); std::unique_ptr<Table> M(new Table(std::move(*T))); Obs o3; observe_table(*M, o3, rp); for (auto &kv : o3) o.push_back({"moved:" + kv.first, kv.second}); }
	} else if (mode == "C14junk") {
		if (sc.conv_ok) { { Junk j(junk); T->convolve(sc.cdim, sc.tau.data(), sc.tau.size()); } Obs o2; observe_table(*T, o2, rp); for (auto &kv : o2) o.push_back({"convolved:" + kv.first, kv.second});
			std::pair<void *, size_t> w(nullptr, 0); { Junk j(junk); w = T->write_fits_mem(); } o.push_back({"convolved:write_fits_mem:meaning", fits_meaning_digest(w.first, w.second)}); free(w.first); }
	} else if (mode == "C17junk") {
		std::unique_ptr<photospline::ndsparse> g; { Junk j(junk); g = T->grideval(sc.grid); } o.push_back({"grideval", sparse_digest(*g)});
		if (sc.s.ndim() >= 2) { std::vector<Table *> lay(3, T.get()); std::vector<double> zs = {-1.0, 0.25, 2.0}; std::unique_ptr<Table> S; { Junk j(junk); S.reset(new Table(lay, zs, 2)); } Obs o2; observe_table(*S, o2, rp); for (auto &kv : o2) o.push_back({"stacked:" + kv.first, kv.second}); }
	}
	{ Junk j(junk); T.reset(); }
	return o;
}
struct FitProblem { int nd; std::vector<uint32_t> ord, por; std::vector<std::vector<double>> kn, co; std::vector<double> lam, w, y; std::vector<std::vector<unsigned>> idx; uint32_t monodim; bool shared; };
static Obs run_fit_scenario(const FitProblem &p, uint64_t pseed, int junk) {
	Obs o; Rng rp(pseed, "junkpoints", 1);
	std::unique_ptr<Table> T; bool threw = false;
	{ Junk j(junk); T.reset(new Table);
	  photospline::ndsparse data(p.y.size(), p.nd); for (size_t i = 0; i < p.y.size(); i++) { std::vector<unsigned> I = p.idx[i]; data.insertEntry(p.y[i], I.data()); }
	  std::vector<double> lam = p.lam; std::vector<uint32_t> por = p.por; if (p.shared) { lam.resize(1); por.resize(1); }
	  try { T->fit(data, p.w, p.co, p.ord, p.kn, lam, por, p.monodim, false); } catch (std::exception &e) { threw = true; } }
	o.push_back({"fit:threw", (uint64_t)threw}); if (threw) return o;
	observe_table(*T, o, rp);
	std::pair<void *, size_t> w(nullptr, 0); { Junk j(junk); w = T->write_fits_mem(); } o.push_back({"fitted:write_fits_mem:meaning", fits_meaning_digest(w.first, w.second)}); free(w.first);
	{ std::vector<size_t> perm(p.nd); std::iota(perm.begin(), perm.end(), 0); std::reverse(perm.begin(), perm.end()); Junk j(junk); T->permuteDimensions(perm); } Obs o2; observe_table(*T, o2, rp); for (auto &kv : o2) o.push_back({"fitted+permuted:" + kv.first, kv.second});
	{ Junk j(junk); T.reset(); }
	return o;
}

static void judge(const std::string &prop, const std::string &what, const std::vector<Obs> &runs, const std::string &cj) {
	const Obs &ref = runs[0];
	for (int m = 1; m < (int)runs.size(); m++) {
		const Obs &o = runs[m]; count("runs-compared-with-the-clean-heap-run");
		if (o.size() != ref.size()) { viol(prop + ":" + what + ":observations-differ-in-number-with-heap-pattern:" + junk_name(m), cj); return; }
		for (size_t i = 0; i < o.size(); i++) {
			count("observations-compared");
			if (o[i].first != ref[i].first || o[i].second != ref[i].second) {
				// cfitsio does not blank the rest of a header block behind END when the fresh buffer already holds what looks like an END card there: the bytes differ,
				// the cards up to END and the data units - what any reader recovers - do not. Counted, not judged; the ":meaning" observation beside it is judged.
				if (o[i].first.size() > 6 && o[i].first.substr(o[i].first.size() - 6) == ":bytes") { count("written-bytes-differ-only-in-the-fill-behind-END(not-judged):" + std::string(junk_name(m))); continue; }
				viol(prop + ":" + what + ":result-depends-on-the-content-of-uninitialised-memory:" + o[i].first, "{\"heap_pattern\":" + jstr(junk_name(m)) + ",\"observation\":" + jstr(o[i].first) + ",\"case\":" + cj + "}"); return;
			}
		}
	}
}

static void run_table_case(const Args &a, long cs, const std::string &mode) {
	Rng r(a.seed, mode.c_str(), cs);
	GenOpts g; g.min_dim = 1; g.max_dim = mode == "C06junk" ? 6 : 4; g.max_coef = 4000; g.max_block = 512; g.max_order = (mode == "C14junk" || mode == "C19junk") ? 3 : 5; g.special_coef = mode == "C06junk" && r.coin(0.3); g.mag_exp_max = 6; g.strict_increasing = mode == "C14junk" || mode == "C19junk"; g.extra_knots_max = 5;
	Scenario sc; sc.s = gen_spec(r, g); Spec &s = sc.s; int nd = s.ndim();
	// optional parts of the file: each absent in a good share of the cases (what the reader must then fill in itself is exactly what this monitor looks at)
	s.has_extents = !r.coin(0.35); if (!s.has_extents) s.extents.clear();
	if (r.coin(0.5)) for (int d = 0; d < nd; d++) s.periods.push_back(r.coin(0.5) ? 0.0 : 0.5 * (d + 1));
	{ bool eq = true; for (int d = 1; d < nd; d++) if (s.order[d] != s.order[0]) eq = false; s.legacy_single_order = eq && r.coin(0.25); }
	int naux = r.coin(0.3) ? 0 : (int)r.below(6); for (int i = 0; i < naux; i++) s.aux.push_back({i == 3 ? "A_LONGER_KEYWORD" : "KEY" + std::to_string(i), i == 1 ? "" : i == 2 ? "42" : "some text " + std::to_string(i)});
	sc.file = mkfits(s); sc.path = g_tmp + "/junk_in." + std::to_string(getpid()) + ".fits"; sc.outpath = g_tmp + "/junk_out." + std::to_string(getpid()) + ".fits"; write_file(sc.path, sc.file.p, sc.file.n);
	sc.variant = (int)r.below(3); sc.pseed = a.seed * 7919 + (uint64_t)cs;
	sc.perm.resize(nd); std::iota(sc.perm.begin(), sc.perm.end(), 0); for (int i = nd - 1; i > 0; i--) std::swap(sc.perm[i], sc.perm[r.below(i + 1)]);
	{ sc.cdim = (unsigned)r.below(nd); int n = r.range(2, 3); const auto &k = s.knots[sc.cdim]; double span = k.back() - k[0]; double y = -0.1 * span * r.U(); for (int i = 0; i < n; i++) { sc.tau.push_back(y); y += span * (0.03 + 0.1 * r.U()); }
	  bool rep = false; for (size_t i = 1; i < k.size(); i++) if (!(k[i] > k[i - 1])) rep = true; bool fin = true; for (float c : s.coef) if (!std::isfinite(c)) fin = false;
	  sc.conv_ok = !rep && fin && s.order[sc.cdim] + n - 1 <= 5 && s.ncoef() / (size_t)s.naxes(sc.cdim) * (k.size() * n) <= 20000; }
	sc.grid.resize(nd); for (int d = 0; d < nd; d++) { int np = r.range(1, nd >= 4 ? 3 : 5); for (int i = 0; i < np; i++) sc.grid[d].push_back(s.knots[d][0] + (s.knots[d].back() - s.knots[d][0]) * (r.U() * 1.2 - 0.1)); }
	// stale bytes for pattern 4: the serialisation of another table (what a program that wrote one table and now handles the next finds in recycled blocks)
	Spec other = gen_spec(r, g); Bytes ob = mkfits(other); g_stale = (const unsigned char *)ob.p; g_stale_n = ob.n;
	std::string cj = "{\"mode\":" + jstr(mode) + ",\"entry\":" + jstr(sc.variant == 0 ? "read_fits_mem" : sc.variant == 1 ? "read_fits" : "path constructor") + ",\"has_extents\":" + (s.has_extents ? "true" : "false") + ",\"periods\":" + std::to_string(s.periods.size()) + ",\"legacy_order\":" + (s.legacy_single_order ? "true" : "false") + ",\"aux\":" + std::to_string(naux) + ",\"table\":" + s.brief() + "}";
	context(cj); count("cases"); count(std::string("entry:") + (sc.variant == 0 ? "read_fits_mem" : sc.variant == 1 ? "read_fits" : "path-constructor")); if (!s.has_extents) count("files-without-EXTENTS"); if (s.periods.empty()) count("files-without-PERIOD-keys"); if (s.legacy_single_order) count("files-with-a-single-ORDER-key"); if (!naux) count("files-without-aux-keys");
	if (mode == "C14junk") count(sc.conv_ok ? "convolutions" : "cases-without-an-admissible-convolution");
	std::vector<Obs> runs; long fb0 = g_filled_blocks;
	for (int m = 0; m < NJUNK; m++) { phase_log(std::string("run with heap pattern ") + junk_name(m)); try { runs.push_back(run_table_scenario(sc, mode, m)); } catch (std::exception &e) { g_junk = 0; if (m == 0) { note("clean-run-threw(skipped):" + std::string(e.what()).substr(0, 40)); runs.clear(); break; } viol(mode.substr(0, 3) + ":" + mode + ":threw-only-with-heap-pattern:" + junk_name(m), "{\"what\":" + jstr(e.what()) + ",\"case\":" + cj + "}"); runs.clear(); break; } }
	count("fresh-blocks-filled", g_filled_blocks - fb0);
	if (!runs.empty()) { judge(mode.substr(0, 3), mode == "C06junk" ? "read/write" : mode == "C15junk" ? "permuteDimensions" : mode == "C14junk" ? "convolve" : mode == "C16junk" ? "aux-keys" : mode == "C19junk" ? "estimateMemory" : "grideval/stack", runs, cj); distinct(hash_mix(s.hash(), sc.variant * 16 + (s.has_extents ? 1 : 0) + (s.periods.empty() ? 2 : 0))); }
	g_stale = nullptr; g_stale_n = 0; free(ob.p); free(sc.file.p); unlink(sc.path.c_str());
	if (cs % 40 == 0) sample(cj);
}
static void run_fit_case(const Args &a, long cs) {
	Rng r(a.seed, "C09junk", cs);
	FitProblem p; p.nd = r.range(1, 3); size_t npt = 1, ntot = 1;
	for (int d = 0; d < p.nd; d++) { uint32_t o = (uint32_t)r.below(4); int nk = 2 * o + 2 + (int)r.below(p.nd == 3 ? 3 : 6); p.ord.push_back(o); p.por.push_back((uint32_t)r.below(o + 1)); p.kn.push_back(gen_knots(r, o, nk, 1, 1.0, r.U() * 4 - 2, true)); p.lam.push_back(std::pow(10.0, (double)r.range(-3, 0)));
		int np = nk - (int)o - 1 + 3 + (int)r.below(4); std::vector<double> c; for (int i = 0; i < np; i++) c.push_back(p.kn[d][0] + (p.kn[d].back() - p.kn[d][0]) * (0.01 + 0.98 * (i + r.U()) / np)); p.co.push_back(c); npt *= np; ntot *= (size_t)(nk - o - 1); }
	p.shared = r.coin(0.25); if (p.shared) { uint32_t mo = *std::min_element(p.ord.begin(), p.ord.end()); for (auto &q : p.por) q = std::min(p.por[0], mo); for (auto &l : p.lam) l = p.lam[0]; }
	p.monodim = r.coin(0.35) ? (uint32_t)r.below(p.nd) : Table::no_monodim;
	bool sparse = r.coin(0.3); std::vector<unsigned> I(p.nd);
	for (size_t lin = 0; lin < npt; lin++) { if (sparse && r.coin(0.25)) continue; size_t q = lin; double v = 1.5; for (int d = p.nd - 1; d >= 0; d--) { I[d] = (unsigned)(q % p.co[d].size()); q /= p.co[d].size(); v += std::sin(0.8 * p.co[d][I[d]] * (d + 1)); } p.idx.push_back(I); p.y.push_back(v + 0.05 * r.U()); p.w.push_back(r.coin(0.1) ? 0.0 : 0.5 + r.U()); }
	std::string cj = "{\"mode\":\"C09junk\",\"ndim\":" + std::to_string(p.nd) + ",\"order\":" + jarr(p.ord) + ",\"coefficients\":" + std::to_string(ntot) + ",\"points\":" + std::to_string(p.y.size()) + ",\"monodim\":" + (p.monodim == Table::no_monodim ? std::string("null") : std::to_string(p.monodim)) + ",\"shared_smoothing\":" + (p.shared ? "true" : "false") + "}";
	context(cj); count("cases"); count("fits"); if (p.monodim != Table::no_monodim) count("monotonic-fits");
	std::vector<Obs> runs; long fb0 = g_filled_blocks;
	for (int m = 0; m < NJUNK; m++) { if (m == 4 || m == 5) { continue; } phase_log(std::string("fit with heap pattern ") + junk_name(m)); try { runs.push_back(run_fit_scenario(p, a.seed * 104729 + (uint64_t)cs, m)); } catch (std::exception &e) { g_junk = 0; if (m == 0) { note("clean-run-threw(skipped):" + std::string(e.what()).substr(0, 40)); } else viol(std::string("C09:fit:threw-only-with-heap-pattern:") + junk_name(m), "{\"what\":" + jstr(e.what()) + ",\"case\":" + cj + "}"); return; } }
	count("fresh-blocks-filled", g_filled_blocks - fb0);
	if (runs[0][0].second) { count("fits-refused(clean-heap)"); }
	// runs[] lost the patterns 4 and 5: name the pattern by position
	{ static const int order[] = {0, 1, 2, 3, 6, 7}; const Obs &ref = runs[0]; bool bad = false;
	  for (size_t m = 1; m < runs.size() && !bad; m++) { count("runs-compared-with-the-clean-heap-run"); const Obs &o = runs[m]; if (o.size() != ref.size()) { viol("C09:fit:observations-differ-in-number-with-heap-pattern:" + std::string(junk_name(order[m])), cj); break; }
	    for (size_t i = 0; i < o.size(); i++) { count("observations-compared"); if (o[i].second != ref[i].second) { viol("C09:fit:result-depends-on-the-content-of-uninitialised-memory:" + o[i].first, "{\"heap_pattern\":" + jstr(junk_name(order[m])) + ",\"observation\":" + jstr(o[i].first) + ",\"case\":" + cj + "}"); bad = true; break; } } } }
	distinct(hash_mix(hash_str(cj), 9));
	if (cs % 40 == 0) sample(cj);
}

// ---------------------------------------------------------------- C07junk: hostile bytes. Whether a damaged file is accepted, and what it loads as, must not depend on the heap either
static void run_hostile_case(const Args &a, long cs) {
	Rng r(a.seed, "C07junk", cs);
	GenOpts g; g.min_dim = 1; g.max_dim = 4; g.max_coef = 1500; g.max_block = 256; g.mag_exp_max = 3; g.extra_knots_max = 4;
	Spec s = gen_spec(r, g); s.has_extents = !r.coin(0.3); if (!s.has_extents) s.extents.clear(); if (r.coin(0.5)) for (int d = 0; d < s.ndim(); d++) s.periods.push_back(0.5 * d);
	int naux = (int)r.below(5); for (int i = 0; i < naux; i++) s.aux.push_back({"KEY" + std::to_string(i), "text " + std::to_string(i)});
	Bytes fb = mkfits(s); std::vector<unsigned char> m((unsigned char *)fb.p, (unsigned char *)fb.p + fb.n); free(fb.p);
	// damage: truncation (anywhere / at a card / at a block), byte flips in the headers or anywhere, a card overwritten with another card of the file, an integer field of a card replaced
	int kind = (int)r.below(6); std::string kn;
	switch (kind) {
	case 0: m.resize(r.below(m.size() + 1)); kn = "truncated-anywhere"; break;
	case 1: m.resize(std::min(m.size(), (size_t)(80 * r.below(m.size() / 80 + 1)))); kn = "truncated-at-a-card"; break;
	case 2: { int nf = 1 + (int)r.below(6); for (int i = 0; i < nf; i++) m[r.below(m.size())] ^= (unsigned char)(1u << r.below(8)); kn = "bit-flips"; break; }
	case 3: { int nf = 1 + (int)r.below(4); for (int i = 0; i < nf; i++) { size_t c = r.below(std::min<size_t>(m.size() / 80, 36)); m[c * 80 + r.below(80)] = (unsigned char)(32 + r.below(95)); } kn = "characters-in-the-primary-header"; break; }
	case 4: { size_t nc = m.size() / 80, a0 = r.below(std::min<size_t>(nc, 36)), b0 = r.below(nc); memmove(&m[a0 * 80], &m[b0 * 80], 80); kn = "card-overwritten-by-another-card"; break; }
	default: { size_t c = r.below(std::min<size_t>(m.size() / 80, 20)); static const char *vals[] = {"0", "-1", "1", "2", "7", "64", "-32", "-64", "99999", "2147483647", "4294967297"}; std::string v = vals[r.below(11)]; std::string f(20, ' '); f.replace(20 - v.size(), v.size(), v); memcpy(&m[c * 80 + 10], f.data(), 20); kn = "integer-field-replaced"; break; }
	}
	Spec other = gen_spec(r, g); Bytes ob = mkfits(other); g_stale = (const unsigned char *)ob.p; g_stale_n = ob.n;
	std::string cj = "{\"mode\":\"C07junk\",\"damage\":" + jstr(kn) + ",\"bytes\":" + std::to_string(m.size()) + ",\"table\":" + s.brief() + "}"; context(cj); count("cases"); count("damage:" + kn);
	std::string path = g_tmp + "/junk_h." + std::to_string(getpid()) + ".fits"; write_file(path, m.data(), m.size()); int entry = (int)r.below(2);
	std::vector<Obs> runs; long fb0 = g_filled_blocks; uint64_t pseed = a.seed * 6151 + (uint64_t)cs;
	for (int pat = 0; pat < NJUNK; pat++) {
		phase_log(std::string("read with heap pattern ") + junk_name(pat)); Obs o; Rng rp(pseed, "junkpoints", 2); std::vector<unsigned char> cp = m; // exact copy per run: the reader must not write to its input either
		std::unique_ptr<Table> T; bool threw = false; { Junk j(pat); T.reset(new Table); try { if (entry == 0) T->read_fits_mem(cp.data(), cp.size()); else T->read_fits(path); } catch (std::exception &) { threw = true; } }
		o.push_back({"read:refused", (uint64_t)threw}); o.push_back({"input-buffer-unchanged", (uint64_t)(cp == m)});
		if (!threw) { bool fin = true; for (unsigned d = 0; d < T->get_ndim() && fin; d++) for (uint64_t i = 0; i < T->get_nknots(d); i++) if (!std::isfinite(T->get_knot(d, i))) fin = false; if (fin) observe_table(*T, o, rp); else o.push_back({"accepted-with-non-finite-knots", 1});
			bool finc = true; for (uint64_t i = 0; i < T->get_ncoeffs(); i++) if (!std::isfinite(T->get_coefficients()[i])) finc = false; std::pair<void *, size_t> w(nullptr, 0); bool wt = false; { Junk j(pat); try { w = T->write_fits_mem(); } catch (std::exception &) { wt = true; } } o.push_back({"rewrite:threw", (uint64_t)wt}); if (!wt) { o.push_back({"rewrite:meaning", fits_meaning_digest(w.first, w.second)}); free(w.first); } (void)finc; }
		else { o.push_back({"table-empty-after-refused-read", (uint64_t)(T->get_ndim() == 0 && T->get_naux_values() == 0)}); }
		{ Junk j(pat); T.reset(); }
		if (pat == 0) count(threw ? "reads-refused" : "reads-accepted");
		runs.push_back(o);
	}
	count("fresh-blocks-filled", g_filled_blocks - fb0);
	judge("C07", entry == 0 ? "read_fits_mem" : "read_fits", runs, cj); distinct(hash_mix(bytes_digest(m.data(), m.size()), entry));
	g_stale = nullptr; g_stale_n = 0; free(ob.p); unlink(path.c_str());
	if (cs % 60 == 0) sample(cj);
}

int main(int argc, char **argv) {
	Args a = parse_args(argc, argv);
	open_out(a.outpath);
	g_tmp = a.tmpdir;
	for (long cs = a.from; cs < a.to; cs++) {
		begin_case(cs);
		std::string m = a.prop; prop_id() = m.substr(0, 3);
		if (m == "C09junk") run_fit_case(a, cs);
		else if (m == "C07junk") run_hostile_case(a, cs);
		else if (m == "C06junk" || m == "C14junk" || m == "C15junk" || m == "C17junk" || m == "C16junk" || m == "C19junk") run_table_case(a, cs, m);
		else { fprintf(stderr, "unknown mode %s\n", m.c_str()); return 2; }
	}
	finish();
	fflush(stdout);
	_exit(0);
}
