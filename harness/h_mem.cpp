// h_mem.cpp - C19 (estimateMemory is an upper bound on bytes requested from the allocator) and
// C20 (object validity and leak-freedom over any history, incl. injected allocation failures).
#include "vf_spec.h"
#include <new>
#include <numeric>

using namespace vf;
static std::string g_tmp;

// ---------------------------------------------------------------- failpoint in the global allocation functions
// Temporaries inside the library (permuteDimensions, convolve, the stacking constructor, string streams...) come from operator new, not from the table's
// allocator. While a library call is running ("armed") the k-th such allocation can be made to throw std::bad_alloc.
struct AllocCtl;
static long g_new_count = 0, g_new_fail_at = -1, g_new_failed = 0; static int g_new_armed = 0; static AllocCtl *g_cur_ctl = nullptr;
static void new_failed_hook();
static void *vf_new(size_t n) {
	if (g_new_armed > 0) { long idx = g_new_count++; if (g_new_fail_at >= 0 && idx == g_new_fail_at) { g_new_failed++; new_failed_hook(); throw std::bad_alloc(); } }
	void *p = malloc(n ? n : 1); if (!p) throw std::bad_alloc(); return p;
}
void *operator new(size_t n) { return vf_new(n); }
void *operator new[](size_t n) { return vf_new(n); }
void *operator new(size_t n, const std::nothrow_t &) noexcept { try { return vf_new(n); } catch (...) { return nullptr; } }
void *operator new[](size_t n, const std::nothrow_t &) noexcept { try { return vf_new(n); } catch (...) { return nullptr; } }
void operator delete(void *p) noexcept { free(p); }
void operator delete[](void *p) noexcept { free(p); }
void operator delete(void *p, size_t) noexcept { free(p); }
void operator delete[](void *p, size_t) noexcept { free(p); }
void operator delete(void *p, const std::nothrow_t &) noexcept { free(p); }
void operator delete[](void *p, const std::nothrow_t &) noexcept { free(p); }
struct NewArm { NewArm() { g_new_armed++; } ~NewArm() { g_new_armed--; } };                       // a library call is running
struct NewSuspend { int s; NewSuspend() : s(g_new_armed) { g_new_armed = 0; } ~NewSuspend() { g_new_armed = s; } }; // harness bookkeeping inside a library call

// ---------------------------------------------------------------- instrumented allocator (passed through the Alloc template parameter)
// An AllocState is one arena: a ledger of the blocks it handed out. Several arenas of one history share an AllocCtl, which numbers the allocations of the
// whole history (fault injection: "the k-th allocation fails"). A block must come back to the arena it came from (allocators that compare unequal).
struct AllocCtl { long nalloc = 0, fail_at = -1, failed = 0; bool sticky = false; };
struct AllocState {
	std::map<void *, size_t> live; size_t live_bytes = 0, peak = 0; long size_mismatch = 0; AllocCtl own; AllocCtl *ctl = nullptr;
	std::vector<std::string> errors;
	AllocCtl &C() { return ctl ? *ctl : own; }
	void reset_peak() { peak = live_bytes; }
};
static void new_failed_hook() { if (g_cur_ctl) g_cur_ctl->failed++; }
static std::vector<AllocState *> g_arenas; // arenas of the running history (to recognise a block handed to the wrong one)
static AllocState g_default_state; // used by default-constructed allocators (e.g. the one a moved-from table is left with)
template <class T> struct CA {
	typedef T value_type; AllocState *st;
	CA(AllocState *s = nullptr) : st(s) {}
	template <class U> CA(const CA<U> &o) : st(o.st) {}
	AllocState &S() const { return st ? *st : g_default_state; }
	T *allocate(size_t n) {
		NewSuspend ns_; AllocState &s = S(); AllocCtl &c = s.C(); long idx = c.nalloc++;
		if (c.fail_at >= 0 && (idx == c.fail_at || (c.sticky && idx > c.fail_at))) { c.failed++; throw std::bad_alloc(); }
		size_t b = n * sizeof(T); void *p = malloc(b ? b : 1); if (!p) throw std::bad_alloc();
		s.live[p] = b; s.live_bytes += b; if (s.live_bytes > s.peak) s.peak = s.live_bytes; return (T *)p;
	}
	void deallocate(T *p, size_t n) {
		NewSuspend ns_; AllocState &s = S(); if (!p) { s.errors.push_back("deallocate(nullptr," + std::to_string(n) + ")"); return; } // a null pointer was never obtained from the allocator, whatever the count
		auto it = s.live.find((void *)p);
		if (it == s.live.end()) {
			std::vector<AllocState *> others = g_arenas; others.push_back(&g_default_state);
			for (AllocState *o : others) { if (o == &s) continue; auto it2 = o->live.find((void *)p); if (it2 != o->live.end()) { s.errors.push_back("block returned to a different allocator than it came from"); o->live_bytes -= it2->second; o->live.erase(it2); free(p); return; } }
			s.errors.push_back("deallocate of a block that is not live (double free or foreign pointer)"); return; }
		if (it->second != n * sizeof(T)) { s.size_mismatch++; s.errors.push_back("block of " + std::to_string(it->second) + " bytes returned with a different size"); }
		s.live_bytes -= it->second; s.live.erase(it); free(p);
	}
	template <class U> struct rebind { typedef CA<U> other; };
	template <class U> bool operator==(const CA<U> &o) const { return st == o.st; }
	template <class U> bool operator!=(const CA<U> &o) const { return st != o.st; }
};
template <> struct CA<void> {
	typedef void value_type; AllocState *st;
	CA(AllocState *s = nullptr) : st(s) {}
	template <class U> CA(const CA<U> &o) : st(o.st) {}
	template <class U> struct rebind { typedef CA<U> other; };
	template <class U> bool operator==(const CA<U> &o) const { return st == o.st; }
	template <class U> bool operator!=(const CA<U> &o) const { return st != o.st; }
};
typedef photospline::splinetable<CA<void>> ATable;

static bool write_file(const std::string &p, const void *d, size_t n) { FILE *f = fopen(p.c_str(), "wb"); if (!f) return false; bool ok = n == 0 || fwrite(d, 1, n, f) == n; fclose(f); return ok; }

// ================================================================ C19
static void run_C19(const Args &a, long cs) {
	Rng r(a.seed, "C19", cs);
	Spec s; int nd = r.range(1, 6); size_t tot = 1; int longdim = r.coin(0.3) ? (int)r.below(nd) : -1;
	for (int d = 0; d < nd; d++) { unsigned o = (unsigned)r.below(5); int nk = 2 * o + 2 + (int)r.below(nd >= 5 ? 3 : 8); if (d == longdim) nk = 150 + (int)r.below(500); if (tot * (size_t)(nk - o - 1) > 300000) nk = 2 * o + 2; s.order.push_back(o); s.knots.push_back(gen_knots(r, o, nk, 1, 1.0, r.U(), true)); tot *= (size_t)(nk - o - 1); }
	s.coef.resize(tot); for (auto &c : s.coef) c = (float)(r.U() - 0.5);
	int naux = r.coin(0.25) ? 0 : (int)r.below(51);
	for (int i = 0; i < naux; i++) { std::string k = r.coin(0.5) ? "K" + std::to_string(i) : "A_LONG_HIERARCH_KEYWORD_NUMBER_" + std::to_string(i); size_t mx = k.size() <= 8 ? 68 : 80 - (13 + k.size()); size_t len = r.coin(0.3) ? mx : r.below(mx + 1); s.aux.push_back({k, std::string(len, 'v')}); }
	if (r.coin(0.3)) for (int d = 0; d < nd; d++) s.periods.push_back(0.5 * d);
	s.has_extents = r.coin(0.8);
	// the file: documented layout; in a third of the cases the KNOTSn extensions are stored out of index order (found by name)
	std::vector<RawHDU> hd = raw_from_spec(s); bool shuffled = false;
	if (nd >= 2 && r.coin(0.35)) { for (int i = nd; i > 1; i--) std::swap(hd[i], hd[1 + r.below(i)]); shuffled = true; count("files-with-knot-extensions-out-of-order"); }
	std::vector<unsigned char> bytes = raw_encode(hd);
	std::string path = g_tmp + "/mem." + std::to_string(getpid()) + ".fits"; write_file(path, bytes.data(), bytes.size());
	count("files"); count("ndim:" + std::to_string(nd)); count("aux-keys", naux); if (longdim >= 0) count("files-with-a-long-knot-vector");
	// declarations: no convolution, and convolutions with 2..8 kernel knots in every dimension (sampled)
	std::vector<std::pair<int, int>> decl; decl.push_back({1, 0});
	for (int q = 0; q < 3; q++) decl.push_back({r.range(2, 8), (int)r.below(nd)}); if (longdim >= 0) decl.push_back({r.range(2, 4), longdim});
	for (auto &dc : decl) {
		int nk = dc.first, dim = dc.second;
		// keep the convolved table small enough to be computed quickly
		if (nk > 1) { size_t newtot = tot / (size_t)s.naxes(dim) * (size_t)(s.knots[dim].size() * nk - (s.order[dim] + nk - 1) - 1); if (newtot > 400000 || s.knots[dim].size() * (size_t)nk > 3000) continue; }
		size_t est = 0; phase_log("estimateMemory");
		std::string dj = "{\"n_convolution_knots\":" + std::to_string(nk) + ",\"dim\":" + std::to_string(dim) + ",\"aux_keys\":" + std::to_string(naux) + ",\"knot_extensions_shuffled\":" + (shuffled ? "true" : "false") + ",\"table\":" + s.brief() + "}";
		context(dj);
		try { est = ATable::estimateMemory(path, (uint32_t)nk, (uint32_t)dim); } catch (std::exception &e) { viol("C19:estimateMemory:threw-on-valid-file", "{\"what\":" + jstr(e.what()) + ",\"d\":" + dj + "}"); continue; }
		AllocState st; size_t peak = 0;
		{
			phase_log("construct from file with counting allocator");
			ATable *T = nullptr;
			try { T = new ATable(path, CA<void>(&st)); } catch (std::exception &e) { viol("C19:load:valid-file-rejected", "{\"what\":" + jstr(e.what()) + ",\"d\":" + dj + "}"); break; }
			if (nk > 1) { std::vector<double> kn; double y = -0.2; for (int i = 0; i < nk; i++) { kn.push_back(y); y += 0.05 + 0.1 * r.U(); } phase_log("convolve with counting allocator"); try { T->convolve((uint32_t)dim, kn.data(), (size_t)nk); } catch (std::exception &e) { note("convolve-threw"); } }
			peak = st.peak + sizeof(ATable); // the estimate includes the object itself
			delete T;
		}
		count("declarations-checked"); if (nk > 1) count("declarations-with-convolution");
		distinct(hash_mix(hash_mix(s.hash(), (uint64_t)nk * 16 + dim), naux));
		long slack = (long)est - (long)peak;
		if (out().counters.count("min-slack-bytes(estimate-peak)") == 0 || slack < out().counters["min-slack-bytes(estimate-peak)"]) out().counters["min-slack-bytes(estimate-peak)"] = slack;
		count(slack < 1024 ? "slack:<1KiB" : slack < 4096 ? "slack:<4KiB" : slack < 65536 ? "slack:<64KiB" : "slack:>=64KiB");
		if (st.size_mismatch) count("deallocations-with-a-size-different-from-the-allocation(not-judged)", st.size_mismatch);
		if (peak > est) viol(std::string("C19:estimateMemory:peak-exceeds-estimate") + (nk > 1 ? ":with-convolution" : ":load-only"), "{\"estimate\":" + std::to_string(est) + ",\"peak_bytes_requested\":" + std::to_string(peak) + ",\"d\":" + dj + "}");
		if (!st.live.empty()) viol("C19:allocator:blocks-still-live-after-destruction", dj);
		for (auto &e : st.errors) viol("C19:allocator:" + e.substr(0, e.find(" bytes") == std::string::npos ? e.size() : 8) + (e.find("different size") != std::string::npos ? "returned-with-a-different-size" : ""), dj); st.errors.clear();
		if (cs % 30 == 0 && dc.first == decl[0].first) sample("{\"estimate\":" + std::to_string(est) + ",\"peak\":" + std::to_string(peak) + ",\"d\":" + dj + "}");
	}
	unlink(path.c_str());
}

// ================================================================ C20
struct Snap {
	unsigned ndim = 0; std::vector<unsigned> order; std::vector<uint64_t> nknots, naxes; std::vector<std::vector<double>> knots; std::vector<double> ext; std::vector<float> coef; std::vector<std::pair<std::string, std::string>> aux;
};
static Snap snap(const ATable &T) {
	Snap s; s.ndim = T.get_ndim();
	for (unsigned d = 0; d < s.ndim; d++) { s.order.push_back(T.get_order(d)); s.nknots.push_back(T.get_nknots(d)); s.naxes.push_back(T.get_ncoeffs(d)); s.knots.push_back(std::vector<double>(T.get_knots(d), T.get_knots(d) + T.get_nknots(d))); s.ext.push_back(T.lower_extent(d)); s.ext.push_back(T.upper_extent(d)); }
	if (s.ndim) s.coef.assign(T.get_coefficients(), T.get_coefficients() + T.get_ncoeffs());
	for (size_t i = 0; i < T.get_naux_values(); i++) { const char *k = T.get_aux_key(i); s.aux.push_back({k ? k : "<null>", k && T.get_aux_value(k) ? T.get_aux_value(k) : "<null>"}); }
	return s;
}
static bool snap_eq(const Snap &a, const Snap &b) {
	if (a.ndim != b.ndim || a.order != b.order || a.nknots != b.nknots || a.naxes != b.naxes || a.aux != b.aux || a.coef.size() != b.coef.size()) return false;
	for (unsigned d = 0; d < a.ndim; d++) if (memcmp(a.knots[d].data(), b.knots[d].data(), 8 * a.knots[d].size())) return false;
	if (a.ext.size() != b.ext.size() || (a.ext.size() && memcmp(a.ext.data(), b.ext.data(), 8 * a.ext.size()))) return false;
	return a.coef.empty() || memcmp(a.coef.data(), b.coef.data(), 4 * a.coef.size()) == 0;
}
static std::string wellformed(const ATable &T) {
	unsigned nd = T.get_ndim(); if (!nd) return "";
	uint64_t st = 1;
	for (int d = (int)nd - 1; d >= 0; d--) { uint64_t nk = T.get_nknots(d), na = T.get_ncoeffs(d); unsigned o = T.get_order(d); if (na != nk - o - 1 || na < (uint64_t)o + 1) return "naxes-inconsistent"; if (T.get_stride(d) != st) return "strides-inconsistent"; st *= na; const double *k = T.get_knots(d); for (uint64_t i = 1; i < nk; i++) if (!(k[i] >= k[i - 1])) return "knots-not-sorted"; }
	return "";
}
static void use_table(ATable &T, Rng &r) { // touches everything a user can touch on a populated table
	unsigned nd = T.get_ndim(); if (!nd) return; std::vector<double> x(nd); std::vector<int> c(nd); volatile double sink = 0;
	for (unsigned d = 0; d < nd; d++) { const double *k = T.get_knots(d); x[d] = k[0] + (k[T.get_nknots(d) - 1] - k[0]) * r.U(); sink = T.get_period(d); sink = T.lower_extent(d); sink = T.upper_extent(d); sink = (double)T.get_stride(d); }
	if (T.searchcenters(x.data(), c.data())) { sink = T.ndsplineeval(x.data(), c.data(), 0); std::vector<double> g(nd + 1); if (nd < 8) T.ndsplineeval_gradient(x.data(), c.data(), g.data()); auto E = T.get_evaluator<float>(); sink = E(x.data(), 0); }
	sink = T(x.data()); for (size_t i = 0; i < T.get_naux_values(); i++) { const char *k = T.get_aux_key(i); std::string v; T.read_key(k, v); }
	(void)sink;
}
struct Seq { std::vector<std::vector<uint64_t>> ops; }; // op = {kind, target, other, p1, p2}

// executes one history; returns number of allocations made through the state; violations are reported inside
static long run_history(const Args &a, uint64_t seqseed, long cs, AllocCtl &st, bool faulted, std::string &hist) {
	Rng r(a.seed * 1000003 + seqseed, "C20seq", (uint64_t)cs);
	g_cur_ctl = &st; g_new_count = 0;
	int nobj = r.range(1, 3), nops = 6 + (int)r.below(20);
	std::vector<ATable *> obj(nobj, nullptr);
	// arenas: in half of the histories every object slot has its own arena (allocator instances that compare unequal; tables migrate between slots by
	// move construction / assignment and take their arena along), plus one for temporaries; otherwise one arena serves all
	bool multi = r.coin(0.5); std::vector<std::unique_ptr<AllocState>> arenas; for (int i = 0; i <= nobj; i++) { arenas.emplace_back(new AllocState); arenas.back()->ctl = &st; }
	g_arenas.clear(); for (auto &ar : arenas) g_arenas.push_back(ar.get());
	auto arena = [&](int slot) { return arenas[multi ? slot : 0].get(); };
	auto fresh = [&](int slot) { return new ATable(CA<void>(arena(slot))); };
	if (!faulted) count(multi ? "histories-with-one-arena-per-object" : "histories-with-a-shared-arena");
	bool keyless = r.coin(0.35); // the file read by this history carries no auxiliary keys
	// files used by this history
	Spec g1; { g1.order = {(unsigned)r.below(3), (unsigned)r.below(3)}; g1.knots = {gen_knots(r, g1.order[0], 2 * g1.order[0] + 2 + (int)r.below(3), 1, 1.0, 0.0, true), gen_knots(r, g1.order[1], 2 * g1.order[1] + 2 + (int)r.below(3), 1, 1.0, 1.0, true)}; g1.coef.resize(g1.ncoef()); for (auto &c : g1.coef) c = (float)(r.U() - 0.5); if (!keyless) g1.aux = {{"NUM", "17"}, {"LONGERKEYWORD", "text"}}; g1.periods = {0.5, 0.0}; }
	Bytes gb = mkfits(g1); std::string good = g_tmp + "/h_good." + std::to_string(getpid()) + ".fits", bad = g_tmp + "/h_bad." + std::to_string(getpid()) + ".fits", outp = g_tmp + "/h_out." + std::to_string(getpid()) + ".fits";
	write_file(good, gb.p, gb.n); write_file(bad, gb.p, gb.n * 2 / 3 + 11);
	for (int i = 0; i < nobj; i++) obj[i] = fresh(i);
	auto refill = [&]() { for (int i = 0; i < nobj; i++) if (!obj[i]) obj[i] = fresh(i); };
	auto fail = [&](const std::string &key) { viol("C20:" + key, "{\"faulted\":" + std::string(faulted ? "true" : "false") + ",\"fail_at_allocation\":" + std::to_string(st.fail_at) + ",\"history\":" + jstr(hist.substr(hist.size() > 1100 ? hist.size() - 1100 : 0)) + "}"); };
	for (int op = 0; op < nops && out().nviol < 4; op++) {
		int kind = (int)r.below(22); int ti = (int)r.below(nobj), tj = (int)r.below(nobj); ATable *&T = obj[ti];
		Snap before = snap(*T); bool populated = before.ndim != 0; bool threw = false; std::string what; long failed0 = st.failed;
		auto post_failed = [&](const char *name) { // a failed operation leaves the object unchanged or empty
			Snap af = snap(*T); if (!(snap_eq(af, before) || (af.ndim == 0 && af.aux.empty()) || (af.ndim == 0 && af.aux == before.aux && before.ndim == 0))) fail(std::string(name) + ":failed-operation-left-object-changed-but-not-empty"); };
		try {
			switch (kind) {
			case 0: { hist += "reset" + std::to_string(ti) + ";"; phase_log("destroy+construct"); delete T; T = nullptr; T = fresh(ti); break; }
			case 1: { int w = (int)r.below(3); hist += std::string("pathctor") + std::to_string(ti) + (w == 0 ? "(good);" : w == 1 ? "(truncated);" : "(missing);"); phase_log("path constructor"); delete T; T = nullptr;
				try { NewArm na_; T = new ATable(w == 0 ? good : w == 1 ? bad : g_tmp + "/nonexistent.fits", CA<void>(arena(ti))); } catch (std::exception &e) { threw = true; }
				if (!T) T = fresh(ti); if (w == 0 && !threw) { Snap s2 = snap(*T); if (s2.ndim != 2) fail("path-constructor:good-file-not-loaded"); } if (w != 0 && !threw) fail("path-constructor:bad-file-accepted"); if (w == 0 && threw && st.failed == failed0) fail("path-constructor:good-file-rejected"); break; }
			case 2: case 3: { int w = (int)r.below(3); bool mem = kind == 3; hist += std::string(mem ? "readmem" : "read") + std::to_string(ti) + (w == 0 ? "(good" : w == 1 ? "(truncated" : "(missing") + (populated ? ",populated);" : ");"); phase_log(mem ? "read_fits_mem" : "read_fits");
				std::vector<unsigned char> cp((unsigned char *)gb.p, (unsigned char *)gb.p + (w == 0 ? gb.n : w == 1 ? gb.n * 2 / 3 + 11 : 100));
				try { NewArm na_; if (mem) T->read_fits_mem(cp.data(), cp.size()); else T->read_fits(w == 0 ? good : w == 1 ? bad : g_tmp + "/nonexistent.fits"); } catch (std::exception &e) { threw = true; }
				if (populated) { if (!threw) fail("read:populated-table-silently-overwritten"); else if (!snap_eq(snap(*T), before)) fail("read:refused-read-changed-populated-table"); }
				else if (threw) { post_failed("read"); if (w == 0 && st.failed == failed0) fail("read:good-file-rejected"); }
				else { if (w != 0) fail("read:bad-file-accepted"); Snap s2 = snap(*T); if (s2.ndim != 2 || s2.order[0] != g1.order[0] || s2.aux.size() != g1.aux.size()) fail("read:loaded-table-differs-from-file"); }
				break; }
			case 4: case 5: { // fit good/bad, into empty or populated
				int nd = r.range(1, 2); bool bad = r.coin(0.3); std::vector<uint32_t> ord(nd), por(nd); std::vector<std::vector<double>> kn(nd), co(nd); std::vector<double> lam(nd); size_t npt = 1;
				for (int d = 0; d < nd; d++) { ord[d] = (uint32_t)r.below(3); por[d] = (uint32_t)r.below(ord[d] + 1); kn[d] = gen_knots(r, ord[d], 2 * ord[d] + 2 + (int)r.below(3), 1, 1.0, 0.0, true); int np = (int)kn[d].size() + 3; for (int i = 0; i < np; i++) co[d].push_back(kn[d][0] + (kn[d].back() - kn[d][0]) * (0.01 + 0.98 * (i + 0.5) / np)); npt *= np; lam[d] = 0.1; }
				if (bad) { if (r.coin(0.5)) lam.push_back(1), lam.push_back(2); else kn[0].resize(ord[0] + 1); }
				photospline::ndsparse data(npt, nd); std::vector<double> w(npt, 1.0); std::vector<unsigned> I(nd); for (size_t lin = 0; lin < npt; lin++) { size_t q = lin; for (int d = nd - 1; d >= 0; d--) { I[d] = (unsigned)(q % co[d].size()); q /= co[d].size(); } data.insertEntry(std::cos(0.7 * lin) + 2, I.data()); }
				uint32_t monodim = r.coin(0.2) ? 0 : ATable::no_monodim;
				hist += std::string("fit") + std::to_string(ti) + (bad ? "(bad" : "(good") + (populated ? ",populated);" : ");"); phase_log("fit");
				try { NewArm na_; T->fit(data, w, co, ord, kn, lam, por, monodim, false); } catch (std::exception &e) { threw = true; }
				if (populated) { if (!threw) { // allowed alternative: replaced after releasing the old storage (leaks are caught by the ledger)
						Snap s2 = snap(*T); if (s2.ndim != (unsigned)nd) fail("fit:populated-table-in-inconsistent-state-after-fit"); } else if (!snap_eq(snap(*T), before)) fail("fit:refused-fit-changed-populated-table"); }
				else if (threw) { post_failed("fit"); if (!bad && st.failed == failed0) fail("fit:valid-arguments-rejected"); }
				else { if (bad) fail("fit:bad-arguments-accepted"); if (T->get_ndim() != (unsigned)nd) fail("fit:result-has-wrong-dimension"); }
				break; }
			case 6: case 7: { static const char *ks[] = {"NUM", "NEWKEY", "ANOTHERLONGKEYWORD", "bad key", "NAXIS"}; std::string k = ks[r.below(5)]; bool valid = k != "bad key" && k != "NAXIS"; hist += "wkey" + std::to_string(ti) + "(" + k + ");"; phase_log("write_key"); if (!faulted && keyless && populated && before.aux.empty()) count("write_key:first-key-on-a-populated-table-without-keys");
				std::string v = r.coin(0.5) ? std::to_string(r.below(1000)) : std::string(1 + r.below(30), 'z');
				try { NewArm na_; T->write_key(k.c_str(), v); } catch (std::exception &e) { threw = true; }
				Snap af = snap(*T);
				if (threw) { if (!snap_eq(af, before)) fail("write_key:failed-call-changed-the-store"); if (valid && st.failed == failed0) fail("write_key:valid-key-rejected"); }
				else { if (!valid) fail("write_key:invalid-key-accepted"); const char *got = T->get_aux_value(k.c_str()); if (!got || v != got) { if (st.failed == failed0) fail("write_key:value-not-stored"); else if (!snap_eq(af, before)) fail("write_key:failed-call-changed-the-store"); else count("write_key:returned-normally-without-storing-after-allocation-failure(stream-swallowed-it)"); } }
				break; }
			case 8: { static const char *ks[] = {"NUM", "NEWKEY", "LONGERKEYWORD", "ABSENT"}; std::string k = ks[r.below(4)]; hist += "rmkey" + std::to_string(ti) + "(" + k + ");"; phase_log("remove_key"); bool had = false; for (auto &kv : before.aux) if (kv.first == k) had = true; bool res = false;
				try { NewArm na_; res = T->remove_key(k.c_str()); } catch (std::exception &e) { threw = true; }
				Snap af = snap(*T); if (threw) { if (!snap_eq(af, before)) fail("remove_key:failed-call-changed-the-store"); if (st.failed == failed0) fail("remove_key:threw-without-fault"); } else { if (res != had) fail("remove_key:wrong-return-value"); if (af.aux.size() + (had ? 1 : 0) != before.aux.size() || T->get_aux_value(k.c_str())) fail("remove_key:store-inconsistent-after-removal"); }
				break; }
			case 9: { if (!populated || r.coin(0.15)) { // invalid convolution requests (empty table, dimension out of range, kernel too small) must throw and change nothing
					double kn[3] = {-0.1, 0.0, 0.3}; uint32_t dim = populated ? before.ndim + (uint32_t)r.below(3) : (uint32_t)r.below(2); size_t nk = populated && r.coin(0.3) ? r.below(2) : 3; if (populated && nk < 2) dim = (uint32_t)r.below(before.ndim);
					if (populated && r.coin(0.45)) { // a valid request except for the kernel itself: knots that are not numbers, not finite, or decreasing describe no kernel
						dim = (uint32_t)r.below(before.ndim); nk = 3; int w = (int)r.below(5); double q = std::numeric_limits<double>::quiet_NaN(), inf = std::numeric_limits<double>::infinity();
						switch (w) { case 0: kn[0] = q; kn[1] = 0; kn[2] = 1; break; case 1: kn[1] = q; break; case 2: kn[2] = inf; break; case 3: kn[0] = -inf; break; default: kn[0] = 0.3; kn[1] = 0.0; kn[2] = -0.1; break; }
						count("convolve:invalid-kernel-knots"); }
					hist += "convolve" + std::to_string(ti) + "(invalid);"; phase_log("convolve (invalid arguments)"); try { NewArm na_; T->convolve(dim, kn, nk); } catch (std::exception &e) { threw = true; }
					if (!threw) fail("convolve:invalid-arguments-accepted"); else if (!snap_eq(snap(*T), before)) fail("convolve:rejected-call-changed-the-table"); break; }
				if (before.coef.size() > 600) break; unsigned dim = (unsigned)r.below(before.ndim); int nk = r.range(2, 3); if (before.order[dim] + nk > 6) break; std::vector<double> kn; double y = -0.2; for (int i = 0; i < nk; i++) { kn.push_back(y); y += 0.1 + 0.2 * r.U(); }
				hist += "convolve" + std::to_string(ti) + ";"; phase_log("convolve"); try { NewArm na_; T->convolve(dim, kn.data(), (size_t)nk); } catch (std::exception &e) { threw = true; }
				if (threw) { post_failed("convolve"); if (st.failed == failed0) fail("convolve:threw-without-fault"); } else { if (T->get_order(dim) != before.order[dim] + nk - 1) fail("convolve:order-not-raised"); }
				break; }
			case 10: { if (!populated) { hist += "permute" + std::to_string(ti) + "(empty-table);"; phase_log("permuteDimensions on empty table"); std::vector<size_t> p0; if (r.coin(0.5)) p0.push_back(0); try { NewArm na_; T->permuteDimensions(p0); } catch (std::exception &e) { threw = true; } if (!p0.empty() && !threw) fail("permuteDimensions:wrong-length-accepted-on-empty-table"); if (!snap_eq(snap(*T), before)) fail("permuteDimensions:changed-an-empty-table"); break; } std::vector<size_t> p(before.ndim); std::iota(p.begin(), p.end(), 0); for (int i = (int)before.ndim - 1; i > 0; i--) std::swap(p[i], p[r.below(i + 1)]); bool valid = r.coin(0.7); if (!valid) p[r.below(before.ndim)] = before.ndim + r.below(2);
				hist += std::string("permute") + std::to_string(ti) + (valid ? "(valid);" : "(invalid);"); phase_log("permuteDimensions"); try { NewArm na_; T->permuteDimensions(p); } catch (std::exception &e) { threw = true; }
				if (threw) { if (!snap_eq(snap(*T), before)) fail("permuteDimensions:failed-call-changed-the-table"); if (valid && st.failed == failed0) fail("permuteDimensions:valid-permutation-rejected"); } else if (!valid) fail("permuteDimensions:invalid-permutation-accepted");
				break; }
			case 11: case 12: { // move construction: object tj is replaced by a table move-constructed from ti
				if (ti == tj) break; hist += "movector" + std::to_string(tj) + "<-" + std::to_string(ti) + ";"; phase_log("move constructor"); delete obj[tj]; obj[tj] = nullptr;
				{ NewArm na_; obj[tj] = new ATable(std::move(*T)); } Snap src = snap(*T), dst = snap(*obj[tj]);
				if (!snap_eq(dst, before)) fail("move-constructor:target-differs-from-source"); if (src.ndim != 0 || !src.aux.empty()) fail("move-constructor:moved-from-table-is-not-empty");
				break; }
			case 13: case 14: { if (ti == tj) break; hist += "moveassign" + std::to_string(ti) + "<-" + std::to_string(tj) + ";"; phase_log("move assignment"); Snap other = snap(*obj[tj]); if (!faulted && multi) count((populated || other.ndim || !before.aux.empty() || !other.aux.empty()) ? "move-assignments-between-arenas:storage-held" : "move-assignments-between-arenas:both-empty");
				{ NewArm na_; *T = std::move(*obj[tj]); } if (!snap_eq(snap(*T), other)) fail("move-assignment:target-differs-from-source");
				Snap src = snap(*obj[tj]); if (!(src.ndim == 0 && src.aux.empty())) fail("move-assignment:moved-from-table-is-not-empty");
				break; }
			case 15: { hist += "cmp;"; phase_log("operator=="); bool e1 = (*T == *obj[tj]); bool e2 = (*obj[tj] == *T); if (e1 != e2) fail("operator==:not-symmetric"); if (ti == tj && populated) { bool nan = false; for (float c : before.coef) if (std::isnan(c)) nan = true; if (!e1 && !nan) fail("operator==:table-not-equal-to-itself"); } break; }
			case 16: { bool mem = r.coin(0.5); hist += std::string(mem ? "writemem" : "write") + std::to_string(ti) + ";"; phase_log(mem ? "write_fits_mem" : "write_fits"); std::pair<void *, size_t> w(nullptr, 0);
				try { NewArm na_; if (mem) w = T->write_fits_mem(); else T->write_fits(outp); } catch (std::exception &e) { threw = true; }
				if (!populated && !threw) fail("write:empty-table-written"); if (populated && threw && st.failed == failed0) fail("write:populated-table-could-not-be-written");
				if (!threw) { ATable R{CA<void>(arena(nobj))}; bool rd = true; try { if (mem) R.read_fits_mem(w.first, w.second); else R.read_fits(outp); } catch (std::exception &e) { rd = false; } if (rd && !(R == *T) ) { bool nan = false; for (float c : before.coef) if (std::isnan(c)) nan = true; if (!nan) fail("write:written-table-reads-back-different"); } if (!rd && st.failed == failed0) fail("write:written-table-unreadable"); }
				free(w.first); unlink(outp.c_str()); if (!snap_eq(snap(*T), before)) fail("write:writing-changed-the-table"); break; }
			case 20: case 21: { // stacking constructor: object tj is replaced by a table stacked from 2-4 copies of object ti along a new last dimension
				if (!populated || before.coef.size() > 300 || before.ndim > 4) break; int nl = r.range(2, 4); int so = r.range(1, 3);
				if (r.coin(0.25)) { // invalid requests must be refused: a single table, coordinate count mismatch, coordinates not increasing, an empty table among the inputs, tables of different shape
					int iv = (int)r.below(5); std::vector<ATable *> lay(nl, T); std::vector<double> zz; for (int i = 0; i < nl; i++) zz.push_back(i * 1.0); ATable emptyT{CA<void>(arena(nobj))};
					if (iv == 0) { lay.resize(1); zz.resize(1); } else if (iv == 1) zz.push_back(9.0); else if (iv == 2) std::swap(zz[0], zz[1]); else if (iv == 3) lay[nl - 1] = &emptyT;
					else { ATable *other = obj[tj]; bool same = ti == tj || !(other->get_ndim()) ? true : (other->get_ndim() == T->get_ndim()); if (same && other != T && other->get_ndim() == T->get_ndim()) { same = true; for (unsigned d = 0; d < T->get_ndim(); d++) if (other->get_nknots(d) != T->get_nknots(d) || other->get_order(d) != T->get_order(d)) same = false; } if (same || other->get_ndim() == 0) break; lay[0] = other; }
					hist += "stack(invalid:" + std::to_string(iv) + ");"; phase_log("stacking constructor (invalid arguments)"); ATable *S2 = nullptr;
					try { NewArm na_; S2 = new ATable(lay, zz, so, CA<void>(arena(tj))); } catch (std::exception &e) { threw = true; }
					if (!threw) { fail("stacking-constructor:invalid-arguments-accepted:" + std::to_string(iv)); delete S2; } else count("stacking-constructor:invalid-requests-refused");
					if (!snap_eq(snap(*T), before)) fail("stacking-constructor:changed-its-input"); break; }
				std::vector<ATable *> layers(nl, T); std::vector<double> zs; double z = -1.0; for (int i = 0; i < nl; i++) { zs.push_back(z); z += 0.5 + r.U(); }
				hist += "stack" + std::to_string(tj) + "<-" + std::to_string(nl) + "x" + std::to_string(ti) + "(order" + std::to_string(so) + ");"; phase_log("stacking constructor");
				ATable *S = nullptr; try { NewArm na_; S = new ATable(layers, zs, so, CA<void>(arena(tj))); } catch (std::exception &e) { threw = true; }
				if (threw) { if (st.failed == failed0) fail("stacking-constructor:threw-on-valid-arguments"); break; }
				if (!snap_eq(snap(*T), before)) fail("stacking-constructor:changed-its-input");
				if (S->get_ndim() != before.ndim + 1) fail("stacking-constructor:result-has-wrong-dimension");
				{ std::string wf = wellformed(*S); if (!wf.empty()) fail("stacking-constructor:result-not-well-formed:" + wf); }
				if (ti == tj) { delete S; break; } // (the input must outlive nothing: the result owns copies)
				// all layers are the same table, so along the new dimension the result is constant (partition of unity): S(x, z) = T(x) inside the extents
				{ phase_log("evaluation of stacked table"); unsigned nd0 = before.ndim; std::vector<double> x(nd0 + 1); double cmax = 0; for (float c : before.coef) cmax = std::max(cmax, (double)std::fabs(c));
				  for (int q = 0; q < 6 && std::isfinite(cmax); q++) { for (unsigned d = 0; d < nd0; d++) { double lo = before.knots[d][before.order[d]], hi = before.knots[d][before.nknots[d] - before.order[d] - 1]; x[d] = lo + (hi - lo) * r.U(); }
				    double zl = S->lower_extent(nd0), zh = S->upper_extent(nd0); x[nd0] = zl + (zh - zl) * r.U(); double a0 = (*T)(x.data()), a1 = (*S)(x.data());
				    if (std::isfinite(a0) && !(std::fabs(a1 - a0) <= 1e-4 * (std::fabs(a0) + cmax) + 1e-30)) { fail("stacking-constructor:stack-of-identical-tables-is-not-constant-along-the-new-dimension"); break; } count("stacked-table-evaluations"); } }
				delete obj[tj]; obj[tj] = S; phase_log("use of stacked table"); { NewArm na_; use_table(*S, r); }
				break; }
			case 17: case 18: { hist += "use" + std::to_string(ti) + ";"; phase_log("getters+evaluation"); std::string wf = wellformed(*T); if (!wf.empty()) fail("state:table-not-well-formed:" + wf); { NewArm na_; use_table(*T, r); } break; }
			default: { if (!populated) { hist += "grideval" + std::to_string(ti) + "(empty-table);"; phase_log("grideval on empty table"); std::vector<std::vector<double>> g0; try { NewArm na_; auto res = T->grideval(g0); } catch (std::exception &e) { threw = true; } if (!threw) fail("grideval:empty-table-accepted"); break; }
				if (before.coef.size() > 600) break; hist += "grideval" + std::to_string(ti) + ";"; phase_log("grideval"); std::vector<std::vector<double>> g(before.ndim); for (unsigned d = 0; d < before.ndim; d++) for (int i = 0; i < 2; i++) g[d].push_back(before.knots[d][0] + (before.knots[d].back() - before.knots[d][0]) * r.U()); try { NewArm na_; auto res = T->grideval(g); } catch (std::exception &e) { threw = true; } if (threw && st.failed == failed0) fail("grideval:threw-without-fault"); if (!snap_eq(snap(*T), before)) fail("grideval:changed-the-table"); break; }
			}
		} catch (std::bad_alloc &e) { if (!faulted || st.failed == failed0) fail("bad_alloc-escaped-without-injected-fault"); else { hist += "[bad_alloc];"; refill(); } }
		catch (std::exception &e) { fail(std::string("unexpected-exception:") + std::string(e.what()).substr(0, 60)); refill(); }
		for (auto &ar : arenas) { for (auto &e : ar->errors) fail("allocator:" + e); ar->errors.clear(); }
		for (auto &e : g_default_state.errors) fail("allocator(default-constructed):" + e); g_default_state.errors.clear();
		// whatever happened, every object must be usable
		phase_log("post-op validity sweep");
		for (auto *o : obj) if (o) { std::string wf = wellformed(*o); if (!wf.empty()) { fail("state:table-not-well-formed-after-operation:" + wf); break; } }
	}
	phase_log("destroy all objects"); for (auto *&o : obj) { delete o; o = nullptr; }
	free(gb.p); unlink(good.c_str()); unlink(bad.c_str()); unlink(outp.c_str());
	for (auto &ar : arenas) { for (auto &e : ar->errors) fail("allocator:" + e); ar->errors.clear(); }
	size_t nlive = 0, blive = 0; long smm = 0; for (auto &ar : arenas) { nlive += ar->live.size(); for (auto &kv : ar->live) blive += kv.second; smm += ar->size_mismatch; }
	if (!faulted && smm) count("deallocations-with-a-size-different-from-the-allocation(not-judged)", smm);
	if (nlive) { viol("C20:leak:allocator-blocks-not-returned", "{\"blocks\":" + std::to_string(nlive) + ",\"bytes\":" + std::to_string(blive) + ",\"zero_length_blocks_included\":true,\"faulted\":" + (faulted ? "true" : "false") + ",\"fail_at_allocation\":" + std::to_string(st.fail_at) + ",\"history\":" + jstr(hist.substr(hist.size() > 1100 ? hist.size() - 1100 : 0)) + "}"); for (auto &ar : arenas) { for (auto &kv : ar->live) free(kv.first); ar->live.clear(); } }
	g_arenas.clear();
	if (!g_default_state.live.empty()) { viol("C20:leak:default-allocator-blocks-not-returned", "{\"history\":" + jstr(hist.substr(0, 900)) + "}"); for (auto &kv : g_default_state.live) free(kv.first); g_default_state.live.clear(); g_default_state.live_bytes = 0; }
	return st.nalloc;
}
static void run_C20(const Args &a, long cs) {
	count("histories");
	AllocCtl st0; std::string hist;
	long N = run_history(a, 0, cs, st0, false, hist);
	count("allocations-in-unfaulted-histories", N);
	distinct(hash_mix(hash_str(hist), 20));
	if (out().nviol) return;
	std::string lk = leak_check(g_tmp); if (!lk.empty()) { viol("C20:leak(LSan):" + lk, "{\"history\":" + jstr(hist.substr(0, 1200)) + "}"); finish_early_and_exit(); }
	// fault enumeration: the k-th allocation through the table's allocator throws
	long maxf = a.tier == "thorough" ? 400 : 60; long step = N > maxf ? (N + maxf - 1) / maxf : 1;
	for (long k = (long)(cs % step); k < N && out().nviol < 3; k += step) {
		AllocCtl st; st.fail_at = k; st.sticky = (k % 5 == 4); std::string h2;
		context("fault at allocation " + std::to_string(k) + (st.sticky ? " (and all later ones)" : ""));
		run_history(a, 0, cs, st, true, h2);
		count("faulted-histories"); if (st.failed) count("faults-fired"); distinct(hash_mix(hash_str(h2), (uint64_t)k + 1000));
		std::string lk2 = leak_check(g_tmp); if (!lk2.empty()) { viol("C20:leak(LSan):after-allocation-failure:" + lk2, "{\"fail_at_allocation\":" + std::to_string(k) + ",\"history\":" + jstr(h2.substr(0, 1200)) + "}"); finish_early_and_exit(); }
	}
	// the same for the global allocation functions: the k-th operator new inside a library call throws
	long N2 = g_new_count; count("operator-new-calls-inside-library-calls(unfaulted)", N2);
	long maxf2 = a.tier == "thorough" ? 200 : 40; long step2 = N2 > maxf2 ? (N2 + maxf2 - 1) / maxf2 : 1;
	for (long k = (long)(cs % step2); k < N2 && out().nviol < 3; k += step2) {
		AllocCtl st; std::string h2; g_new_fail_at = k; g_new_failed = 0;
		context("operator new number " + std::to_string(k) + " inside library calls throws");
		run_history(a, 0, cs, st, true, h2);
		g_new_fail_at = -1;
		count("faulted-histories(operator-new)"); if (g_new_failed) count("operator-new-faults-fired"); distinct(hash_mix(hash_str(h2), (uint64_t)k + 500000));
		std::string lk2 = leak_check(g_tmp); if (!lk2.empty()) { viol("C20:leak(LSan):after-operator-new-failure:" + lk2, "{\"fail_at_new\":" + std::to_string(k) + ",\"history\":" + jstr(h2.substr(0, 1200)) + "}"); finish_early_and_exit(); }
	}
	if (cs % 20 == 0) sample("{\"history\":" + jstr(hist.substr(0, 600)) + ",\"allocations\":" + std::to_string(N) + "}");
}

int main(int argc, char **argv) {
	Args a = parse_args(argc, argv);
	open_out(a.outpath);
	g_tmp = a.tmpdir;
	for (long cs = a.from; cs < a.to; cs++) {
		begin_case(cs);
		if (a.prop == "C19") run_C19(a, cs); else if (a.prop == "C20") run_C20(a, cs); else { fprintf(stderr, "unknown mode\n"); return 2; }
	}
	finish();
	fflush(stdout);
	_exit(0);
}
