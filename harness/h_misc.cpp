// h_misc.cpp - C14 (convolution), C15 (permuting dimensions), C17 (grid evaluation).
#include "vf_ref.h"
#include <photospline/cinter/splinetable.h>
#include <numeric>

using namespace vf;
typedef photospline::splinetable<> Table;

static Spec spec_of(const Table &T) {
	Spec s; for (unsigned d = 0; d < T.get_ndim(); d++) { s.order.push_back(T.get_order(d)); s.knots.push_back(std::vector<double>(T.get_knots(d), T.get_knots(d) + T.get_nknots(d))); }
	s.coef.assign(T.get_coefficients(), T.get_coefficients() + T.get_ncoeffs()); return s;
}
static std::string wellformed(const Table &T) {
	unsigned nd = T.get_ndim(); if (!nd) return "ndim==0"; uint64_t tot = 1;
	for (unsigned d = 0; d < nd; d++) { uint64_t nk = T.get_nknots(d), na = T.get_ncoeffs(d); unsigned o = T.get_order(d); if (na != nk - o - 1) return "naxes!=nknots-order-1"; if (na < (uint64_t)o + 1) return "naxes<order+1"; const double *k = T.get_knots(d); for (uint64_t i = 0; i < nk; i++) { if (!std::isfinite(k[i])) return "non-finite-knot"; if (i && k[i] < k[i - 1]) return "decreasing-knots"; } tot *= na; }
	uint64_t st = 1; for (int d = (int)nd - 1; d >= 0; d--) { if (T.get_stride(d) != st) return "strides-inconsistent"; st *= T.get_ncoeffs(d); }
	return "";
}

// ================================================================ C14
static const LD gx[8] = {-0.9602898564975362L, -0.7966664774136267L, -0.5255324099163290L, -0.1834346424956498L, 0.1834346424956498L, 0.5255324099163290L, 0.7966664774136267L, 0.9602898564975362L};
static const LD gw[8] = {0.1012285362903763L, 0.2223810344533745L, 0.3137066458778873L, 0.3626837833783620L, 0.3626837833783620L, 0.3137066458778873L, 0.2223810344533745L, 0.1012285362903763L};
static LD Bh(const std::vector<double> &k, int i, int p, LD x) {
	if (p == 0) return (x >= k[i] && x < k[i + 1]) ? 1 : 0;
	LD d1 = (LD)k[i + p] - k[i], d2 = (LD)k[i + p + 1] - k[i + 1];
	LD a = d1 != 0 ? (x - k[i]) / d1 * Bh(k, i, p - 1, x) : 0, b = d2 != 0 ? ((LD)k[i + p + 1] - x) / d2 * Bh(k, i + 1, p - 1, x) : 0;
	return a + b;
}
// K: bound on |lib - oracle| / (2^-24 M); fixed from the measured error distribution on the repaired tree with >= 10x head-room (see evidence counters errratio:*)
static const double K_CONV = 400.0;
static const double K_GROSS = 2e6; // 12% of the magnitude: beyond any loss of accuracy seen for high orders
static std::map<int, double> g_worst; // worst ratio per (order + kernel knots), reported through counters "worst-ratio-x1000:o+n=.."

static void run_C14(const Args &a, long cs) {
	Rng r(a.seed, "C14", cs);
	int nd = r.range(1, 4); int dim = (int)r.below(nd);
	Spec s; size_t tot = 1;
	int maxorder = a.extra.count("maxorder") ? atoi(a.extra.at("maxorder").c_str()) : 5;
	for (int d = 0; d < nd; d++) {
		unsigned o = d == dim ? (unsigned)r.below(maxorder + 1) : (unsigned)r.below(4);
		int nk = 2 * o + 2 + (int)r.below(d == dim ? 8 : 3);
		s.order.push_back(o); s.knots.push_back(gen_knots(r, o, nk, r.coin(0.3) ? 0 : 1, 1.0, r.U() * 4 - 2, true)); tot *= (size_t)(nk - o - 1);
	}
	// strata with recorded findings: repeated knots in the convolved dimension (clamped ends or a doubled interior knot, as a previous convolution on a common grid
	// leaves them), and kernels much narrower than the knot spacing
	bool repeated = r.coin(0.06); bool narrow = !repeated && r.coin(0.08);
	if (repeated) { auto &kk = s.knots[dim]; unsigned oo = s.order[dim]; if (oo >= 1 && kk.size() >= 2 * oo + 4) { if (r.coin(0.5)) { size_t i = oo + 1 + r.below(kk.size() - 2 * oo - 3); kk[i] = kk[i + 1]; } else for (unsigned i = 0; i < oo; i++) { kk[i] = kk[oo]; kk[kk.size() - 1 - i] = kk[kk.size() - 1 - oo]; } } else repeated = false; }
	// strongly graded knots in the convolved dimension (intervals growing geometrically) with a kernel spanning several of the fine intervals but less than the
	// mean spacing: which old basis functions contribute to a new coefficient then differs widely along the axis
	// (only where the result is judged strictly, order + kernel knots <= 6: above that the recorded instability of the divided-difference scheme grows with the ratio of
	// the coarse intervals to the kernel width - thorough tier: order 5 with 6 kernel knots on such an axis is off by 180 % - and says nothing new)
	bool graded = !repeated && !narrow && s.order[dim] <= 4 && r.coin(0.14); double graded_step0 = 0;
	if (graded) { auto &kk = s.knots[dim]; graded_step0 = 0.02 + 0.03 * r.U(); double q = 1.4 + 0.4 * r.U(), st = graded_step0; bool rev = r.coin(0.3); std::vector<double> steps; for (size_t i = 1; i < kk.size(); i++) { steps.push_back(st); st *= q; } if (rev) std::reverse(steps.begin(), steps.end()); for (size_t i = 1; i < kk.size(); i++) kk[i] = kk[i - 1] + steps[i - 1]; }
	// commensurate but inexact: knots 0.1*i with kernel knots on multiples of 0.05 - the pairwise sums then contain values that agree to an ulp or two without being equal
	bool commens = !repeated && !narrow && !graded && s.order[dim] <= 3 && r.coin(0.06);
	if (commens) { auto &kk = s.knots[dim]; int i0 = (int)r.below(40) - 20; for (size_t i = 0; i < kk.size(); i++) kk[i] = 0.1 * (double)(i0 + (int)i); }
	bool ones = r.coin(0.2);
	s.coef.resize(tot); for (auto &c : s.coef) c = ones ? 1.f : (float)(r.U() - 0.3);
	int n = r.range(2, 6); // kernel knots
	if (graded) n = r.range(2, 6 - (int)s.order[dim]);
	std::vector<double> tau; { double y0 = -r.U(); double wscale = std::pow(10.0, r.U() * 2 - 1.3); if (narrow) wscale = std::pow(10.0, -(double)r.range(3, 6)); if (graded) wscale = graded_step0 * (2 + 10 * r.U()); bool sym = r.coin(0.3); for (int i = 0; i < n; i++) { tau.push_back(y0); y0 += (0.1 + r.U()) * wscale; } if (sym) { double c0 = 0.5 * (tau[0] + tau.back()); for (auto &t : tau) t -= c0; for (int i = 0; i < n / 2; i++) tau[n - 1 - i] = -tau[i]; if (n % 2) tau[n / 2] = 0; std::sort(tau.begin(), tau.end()); for (int i = 1; i < n; i++) if (!(tau[i] > tau[i - 1])) tau[i] = tau[i - 1] + 0.01 * wscale; } }
	if (commens) { static const std::vector<std::vector<double>> ck = {{-0.05, 0.05}, {-0.1, 0.0, 0.1}, {-0.15, -0.05, 0.05, 0.15}, {0.3, 0.7, 0.8}, {0.0, 0.1}, {-0.2, 0.1, 0.3}, {0.05, 0.15, 0.35}}; std::vector<std::vector<double>> ok; for (auto &c : ck) if ((int)s.order[dim] + (int)c.size() <= 6) ok.push_back(c); tau = ok[r.below(ok.size())]; n = (int)tau.size(); count("tables-with-commensurate-inexact-knots-and-kernel"); }
	// the unit of the convolved axis: the convolution commutes with a change of unit, so the same table with nanosecond-sized or mega-sized coordinates must do as well
	{ static const double units[] = {1, 1, 1, 1, 1, 1e-9, 1e-7, 1e-3, 1e3, 1e6}; double u = units[r.below(10)]; if (commens) u = 1; if (u != 1) { for (auto &kk : s.knots[dim]) kk *= u; for (auto &tt : tau) tt *= u; bool inc = true; for (size_t i = 1; i < s.knots[dim].size(); i++) if (!(s.knots[dim][i] > s.knots[dim][i - 1])) inc = false; for (int i = 1; i < n; i++) if (!(tau[i] > tau[i - 1])) inc = false; if (!inc) return; char b[32]; snprintf(b, sizeof b, "%g", u); count(std::string("axis-unit:") + b); } else count("axis-unit:1"); }
	s.flavor = "conv";
	Table T; if (!load(T, s)) { viol("C14:load:well-formed-table-rejected", s.full_json()); return; }
	Table T2; load(T2, s);
	unsigned o = s.order[dim]; int nk = (int)s.knots[dim].size();
	if (graded) count("tables-with-geometrically-graded-knots-in-the-convolved-dimension"); if (repeated) count("tables-with-repeated-knots-in-the-convolved-dimension"); if (narrow) count("kernels-much-narrower-than-the-knot-spacing");
	count("convolutions"); count("order:" + std::to_string(o)); count("kernel-knots:" + std::to_string(n)); count("ndim:" + std::to_string(nd)); if (ones) count("tables-all-ones");
	std::string cj = "{\"dim\":" + std::to_string(dim) + ",\"kernel\":" + jarrd(tau) + ",\"table\":" + s.full_json() + "}";
	phase_log("convolve"); context(cj);
	try { T.convolve((uint32_t)dim, tau.data(), (size_t)n); } catch (std::exception &e) { viol("C14:convolve:threw-on-valid-input", "{\"what\":" + jstr(e.what()) + ",\"case\":" + cj + "}"); return; }
	{ bool fin = true; const float *cc = T.get_coefficients(); for (uint64_t i = 0; i < T.get_ncoeffs(); i++) if (!std::isfinite(cc[i])) fin = false;
	  if (!fin) { viol(repeated ? "C14:convolve:non-finite-coefficients:repeated-knots-in-the-convolved-dimension" : "C14:convolve:non-finite-coefficients", cj); return; } }
	// structure
	std::string wf = wellformed(T); if (!wf.empty()) { viol("C14:convolve:result-not-well-formed:" + wf, cj); return; }
	if (T.get_order(dim) != o + (unsigned)n - 1) viol("C14:convolve:order-not-raised-by-n-1", cj);
	{ std::vector<double> want; for (double k : s.knots[dim]) for (double t : tau) want.push_back(k + t); std::sort(want.begin(), want.end());
	  bool same = T.get_nknots(dim) == want.size(); for (size_t i = 0; same && i < want.size(); i++) if (!biteq(want[i], T.get_knot(dim, i))) same = false; if (!same) { viol("C14:convolve:knots-are-not-the-sorted-pairwise-sums", cj); return; } }
	for (int d = 0; d < nd; d++) if (d != dim) { bool same = T.get_order(d) == s.order[d] && T.get_nknots(d) == s.knots[d].size() && T.get_ncoeffs(d) == (uint64_t)s.naxes(d); for (size_t i = 0; same && i < s.knots[d].size(); i++) if (!biteq(s.knots[d][i], T.get_knot(d, i))) same = false; if (!same) { viol("C14:convolve:other-dimension-changed", cj); return; } }
	// C wrapper gives the same table
	{ splinetable h; h.data = &T2; phase_log("C:splinetable_convolve"); int rc = splinetable_convolve(&h, dim, tau.data(), (size_t)n); if (rc != 0 || !(T2 == T)) viol("C14:C:splinetable_convolve:differs-from-C++", cj); count("C-wrapper-comparisons"); }
	// the kernel knots may be knots of the table itself
	if (cs % 5 == 0) { int dA = (int)r.below(nd); size_t nA = s.knots[dA].size(); int na = r.range(2, (int)std::min<size_t>(4, nA)); size_t off = r.below(nA - na + 1); bool inc = true; for (int i = 1; i < na; i++) if (!(s.knots[dA][off + i] > s.knots[dA][off + i - 1])) inc = false;
		if (inc && s.order[dim] + na <= 6) { Table A1, A2; load(A1, s); load(A2, s); std::vector<double> kc(s.knots[dA].begin() + off, s.knots[dA].begin() + off + na); phase_log("convolve with the table's own knots as kernel");
			bool t1 = false, t2 = false; try { A1.convolve((uint32_t)dim, A1.get_knots(dA) + off, (size_t)na); } catch (std::exception &) { t1 = true; } try { A2.convolve((uint32_t)dim, kc.data(), (size_t)na); } catch (std::exception &) { t2 = true; }
			bool same = t1 == t2; if (same && !t1) { same = A1 == A2; for (int d = 0; d < nd && same; d++) if (!biteq(A1.lower_extent(d), A2.lower_extent(d)) || !biteq(A1.upper_extent(d), A2.upper_extent(d))) same = false; }
			if (!same) viol("C14:convolve:result-depends-on-whether-the-kernel-aliases-the-table's-own-knots", cj); count("aliasing-kernel-comparisons"); } }
	// values: quadrature oracle along the convolved dimension, other coordinates fixed
	double lo = T.get_knot(dim, 0), hi = T.get_knot(dim, T.get_nknots(dim) - 1);
	int npts = a.tier == "thorough" ? 60 : 30; if (tot > 3000) npts /= 3;
	std::vector<double> x(nd); std::vector<int> c(nd);
	const std::vector<double> &k = s.knots[dim];
	LD norm = (LD)(n - 1) / ((LD)tau.back() - tau[0]);
	for (int p = 0; p < npts; p++) {
		for (int d = 0; d < nd; d++) { if (d == dim) { int cl = (int)r.below(5); if (cl == 0) x[d] = T.get_knot(dim, 1 + r.below(T.get_nknots(dim) - 1)); else x[d] = lo + (hi - lo) * (0.0005 + 0.999 * r.U()); } else { const auto &kk = s.knots[d]; x[d] = kk[0] + (kk.back() - kk[0]) * (0.001 + 0.998 * r.U()); } }
		if (!T.searchcenters(x.data(), c.data())) continue;
		phase_log("evaluate convolved table"); double lib = T.ndsplineeval<double>(x.data(), c.data(), 0);
		// basis values of the other dimensions on the ORIGINAL table (reference), then integrate f(x_d - t) kappa(t) dt
		std::vector<DimBasis> bs(nd); for (int d = 0; d < nd; d++) if (d != dim) bs[d] = ref_dim_basis(s.knots[d], s.order[d], x[d], 0);
		std::vector<LD> bp; for (double tj : tau) bp.push_back(tj); for (double ki : k) { LD tt = (LD)x[dim] - ki; if (tt > tau[0] && tt < tau.back()) bp.push_back(tt); } std::sort(bp.begin(), bp.end());
		LD S = 0, M = 0; int nax = (int)s.naxes(dim);
		for (size_t q = 0; q + 1 < bp.size(); q++) {
			LD a0 = bp[q], b0 = bp[q + 1]; if (b0 <= a0) continue; LD hh = (b0 - a0) / 2, mm = (b0 + a0) / 2;
			for (int g = 0; g < 8; g++) {
				LD tt = mm + hh * gx[g]; LD kap = norm * Bh(tau, 0, n - 2, tt);
				// f at (x_d - tt): half-open basis along dim
				DimBasis bd; bd.lo = 0; bd.v.assign(nax, 0); bd.m.assign(nax, 0); for (int i = 0; i < nax; i++) { LD v = Bh(k, i, (int)o, (LD)x[dim] - tt); bd.v[i] = v; bd.m[i] = fabsl(v); }
				bs[dim] = bd; RefVal rv = ref_eval(s, bs);
				S += hh * gw[g] * kap * rv.S; M += hh * gw[g] * kap * rv.M;
			}
		}
		if (!(M > 0) || !std::isfinite((double)M)) { count("points-trivial"); continue; }
		// the convolved coefficients are stored as floats: below ~2^-149 per term nothing can be represented
		LD cmaxo = 0; for (float cc : s.coef) cmaxo = std::max(cmaxo, fabsl((LD)cc));
		// ... and the convolution of a function bounded by max|c| with a unit-area kernel is bounded by max|c|: an absolute floor of 2^-30 max|c| (64x finer than the
		// float resolution of the coefficients themselves) keeps the relative test meaningful where the result itself tends to zero (ends of the knot range)
		LD floor_ = (LD)s.block() * (n + 4) * ldexpl(1, -140) * std::max<LD>(1, cmaxo) + ldexpl(1, -30) * cmaxo;
		LD errabs = fabsl((LD)lib - S); errabs = errabs > floor_ ? errabs - floor_ : 0;
		double ratio = (double)(errabs / (ldexpl(1, -24) * M));
		{ int on = (int)o + n; double &w = g_worst[on]; if (ratio > w) w = ratio; }
		count("points-checked"); uint64_t h = s.hash(); for (double v : x) h = hash_d(h, v); distinct(hash_mix(h, n));
		if (a.verbose) fprintf(stderr, "C14 x=%.6g lib=%.9g integral=%.9Lg M=%.3Lg err/cmax=%.3Lg ratio=%.3g\n", x[dim], lib, S, M, fabsl((LD)lib - S) / cmaxo, ratio);
		count(ratio < 1 ? "errratio:<1" : ratio < 10 ? "errratio:<10" : ratio < 40 ? "errratio:<40" : ratio < K_CONV ? "errratio:<400" : "errratio:>=400");
		std::string cls = "order" + std::to_string(o) + (o % 2 == 0 ? "(even)" : "(odd)");
		bool lowstratum = (int)o + n <= 6;
		if (!(ratio <= K_CONV)) {
			bool neg = fabsl((LD)lib + S) <= K_CONV * ldexpl(1, -24) * M + floor_;
			std::string dj = "{\"lib\":" + jnum(lib) + ",\"integral\":" + jnum((double)S) + ",\"M\":" + jnum((double)M) + ",\"ratio_to_2^-24M\":" + jnum(ratio) + ",\"x\":" + jarrd(x) + ",\"order_class\":" + jstr(cls) + ",\"order+kernelknots\":" + std::to_string((int)o + n) + ",\"case\":" + cj + "}";
			if (narrow) viol("C14:convolve:accuracy-below-single-precision:kernel-much-narrower-than-the-knot-spacing", dj); // recorded finding: same cancellation as for high orders, driven by the ratio of the two spacings
			else if (neg) viol("C14:convolve:value-is-the-negative-of-the-convolution-integral", dj);
			else if (lowstratum) viol(std::string("C14:convolve:value-differs-from-convolution-integral:") + (o == 0 ? "order0" : "order+kernelknots<=6"), dj);
			// gross = beyond 12% of the larger of the local magnitude and max|c| (the convolution with a unit-area kernel is bounded by max|c|): the recorded
			// instability is an absolute error on the scale of the coefficients, so near the ends of the range, where the local magnitude tends to zero, it is
			// unbounded relative to the local magnitude while staying a small fraction of max|c| (seen: 2^-12 max|c| for order 5 with 5 close kernel knots)
			else if ((double)(errabs / (ldexpl(1, -24) * std::max(M, cmaxo))) <= K_GROSS) viol("C14:convolve:accuracy-below-single-precision:order+kernelknots>=7", dj); // numerically unstable divided differences (recorded finding)
			else viol("C14:convolve:value-differs-from-convolution-integral:gross-error:order+kernelknots>=7", dj);
			if (!a.verbose) break;
		}
		if (p == 0 && cs % 10 == 0) sample("{\"order\":" + std::to_string(o) + ",\"kernel_knots\":" + std::to_string(n) + ",\"ndim\":" + std::to_string(nd) + ",\"dim\":" + std::to_string(dim) + ",\"x\":" + jarrd(x) + ",\"lib\":" + jnum(lib) + ",\"integral\":" + jnum((double)S) + ",\"ratio\":" + jnum(ratio) + "}");
	}
}

// ================================================================ C15
static void run_C15(const Args &a, long cs) {
	Rng r(a.seed, "C15", cs);
	// enumerate permutations: dims 1..5 exhaustively (153), then sampled 6-d
	static std::vector<std::vector<size_t>> perms;
	if (perms.empty()) for (int nd = 1; nd <= 5; nd++) { std::vector<size_t> p(nd); std::iota(p.begin(), p.end(), 0); do perms.push_back(p); while (std::next_permutation(p.begin(), p.end())); }
	std::vector<size_t> perm;
	if (cs < (long)perms.size()) perm = perms[cs]; else { int nd = 6; perm.resize(nd); std::iota(perm.begin(), perm.end(), 0); for (int i = nd - 1; i > 0; i--) std::swap(perm[i], perm[r.below(i + 1)]); }
	// beyond the enumeration: half of the sampled cases are 2-5-d tables whose axes all have the same length and order (only knots, extents and periods tell them apart):
	// the coefficient array keeps its shape under every permutation there, so nothing but the values shows whether it was transposed
	bool equal_axes = cs >= (long)perms.size() && r.coin(0.5);
	if (equal_axes) { int n2 = r.range(2, 5); perm.resize(n2); std::iota(perm.begin(), perm.end(), 0); bool id = true; while (id) { for (int i = n2 - 1; i > 0; i--) std::swap(perm[i], perm[r.below(i + 1)]); for (int i = 0; i < n2; i++) if (perm[i] != (size_t)i) id = false; } count("tables-with-axes-of-equal-length-and-order"); }
	int nd = (int)perm.size(); unsigned eq_o = (unsigned)r.below(3); int eq_extra = 1 + (int)r.below(3);
	Spec s; size_t tot = 1;
	for (int d = 0; d < nd; d++) { unsigned o = (unsigned)((d + r.below(2)) % 4); int nk = 2 * o + 2 + d + (nd <= 4 ? 1 : 0); if (equal_axes) { o = eq_o; nk = 2 * (int)o + 2 + eq_extra; } s.order.push_back(o); s.knots.push_back(gen_knots(r, o, nk, 1, 1.0, d * 1.5, true)); tot *= (size_t)(nk - o - 1); s.periods.push_back(0.25 * (d + 1)); s.extents.push_back(s.knots[d][0] + 0.1 * (d + 1)); s.extents.push_back(s.knots[d].back() - 0.07 * (d + 1)); }
	s.coef.resize(tot); for (size_t i = 0; i < tot; i++) s.coef[i] = (float)(i + 1) + (float)r.U() * 0.5f;
	// "exactly the original values relocated" is a statement about bits: signed zeros and subnormal values among the coefficients
	{ static const float sp[] = {-0.f, 0.f, 1e-42f, -1e-45f, -0.f}; size_t nsp = 1 + r.below(std::max<size_t>(1, tot / 6)); for (size_t q = 0; q < nsp; q++) s.coef[r.below(tot)] = sp[r.below(5)]; count("coefficients-with-special-bit-patterns", (long)nsp); }
	s.flavor = "perm";
	Table T, P; if (!load(T, s) || !load(P, s)) { viol("C15:load:well-formed-table-rejected", s.full_json()); return; }
	std::string pj = "{\"permutation\":" + jarr(perm) + ",\"table\":" + s.brief() + "}";
	count("permutations"); count("ndim:" + std::to_string(nd)); distinct(hash_mix(hash_str(jarr(perm)), 15));
	phase_log("permuteDimensions"); context(pj);
	try { P.permuteDimensions(perm); } catch (std::exception &e) { viol("C15:permuteDimensions:valid-permutation-rejected", "{\"what\":" + jstr(e.what()) + ",\"case\":" + pj + "}"); return; }
	for (int i = 0; i < nd; i++) {
		size_t j = perm[i]; const char *what = nullptr;
		if (P.get_order(i) != T.get_order(j)) what = "order"; else if (P.get_nknots(i) != T.get_nknots(j)) what = "nknots"; else if (P.get_ncoeffs(i) != T.get_ncoeffs(j)) what = "ncoeffs";
		else if (memcmp(P.get_knots(i), T.get_knots(j), 8 * T.get_nknots(j))) what = "knots"; else if (!biteq(P.lower_extent(i), T.lower_extent(j)) || !biteq(P.upper_extent(i), T.upper_extent(j))) what = "extents"; else if (!biteq(P.get_period(i), T.get_period(j))) what = "period";
		if (what) { viol(std::string("C15:permuteDimensions:attribute-not-permuted:") + what, pj); return; }
	}
	{ uint64_t st = 1; for (int d = nd - 1; d >= 0; d--) { if (P.get_stride(d) != st) { viol("C15:permuteDimensions:strides-inconsistent", pj); return; } st *= P.get_ncoeffs(d); } }
	// every coefficient found bit-identically at the permuted multi-index
	{ std::vector<size_t> idx(nd); std::vector<long> nax(nd); for (int d = 0; d < nd; d++) nax[d] = s.naxes(d);
	  for (size_t lin = 0; lin < tot; lin++) { size_t q = lin; for (int d = nd - 1; d >= 0; d--) { idx[d] = q % nax[d]; q /= nax[d]; } size_t pl = 0; for (int i = 0; i < nd; i++) pl += idx[perm[i]] * P.get_stride(i); if (!biteqf(P.get_coefficients()[pl], T.get_coefficients()[lin])) { viol("C15:permuteDimensions:coefficient-not-relocated", pj); return; } }
	  count("coefficients-checked", (long)tot); }
	// evaluation at permuted points agrees with the reference of the original
	{ std::vector<double> x(nd), xp(nd); std::vector<int> c(nd);
	  for (int p = 0; p < 12; p++) { for (int d = 0; d < nd; d++) x[d] = s.knots[d][0] + (s.knots[d].back() - s.knots[d][0]) * (0.01 + 0.98 * r.U()); for (int i = 0; i < nd; i++) xp[i] = x[perm[i]];
	    if (!P.searchcenters(xp.data(), c.data())) { viol("C15:permuteDimensions:lookup-fails-at-permuted-point", pj); break; }
	    double v = P.ndsplineeval<double>(xp.data(), c.data(), 0); RefVal rv = ref_eval_point(s, x.data(), nullptr); count("evaluation-checks");
	    if (!(fabsl((LD)v - rv.S) <= ref_tol(s, rv, true))) { viol("C15:permuteDimensions:evaluation-changed", "{\"lib\":" + jnum(v) + ",\"ref\":" + jnum((double)rv.S) + ",\"case\":" + pj + "}"); break; } } }
	// inverse permutation restores an equal, attribute-identical table
	{ std::vector<size_t> inv(nd); for (int i = 0; i < nd; i++) inv[perm[i]] = i; phase_log("inverse permutation"); P.permuteDimensions(inv);
	  bool same = P == T; for (int d = 0; same && d < nd; d++) if (!biteq(P.lower_extent(d), T.lower_extent(d)) || !biteq(P.upper_extent(d), T.upper_extent(d)) || !biteq(P.get_period(d), T.get_period(d)) || P.get_stride(d) != T.get_stride(d)) same = false;
	  if (!same) viol("C15:permuteDimensions:inverse-does-not-restore-the-table", pj); count("inverse-checks"); }
	// malformed arguments: rejected, table unchanged
	{ std::vector<std::vector<size_t>> bad; std::vector<size_t> b;
	  b = perm; b.push_back(0); bad.push_back(b); b = perm; b.pop_back(); bad.push_back(b); bad.push_back({});
	  if (nd >= 2) { b = perm; b[0] = b[1]; bad.push_back(b); } b = perm; b[r.below(nd)] = (size_t)nd; bad.push_back(b); b = perm; b[r.below(nd)] = (size_t)-1; bad.push_back(b); b = perm; b[r.below(nd)] = (size_t)nd + 1000000; bad.push_back(b);
	  // out-of-range entries whose low 32 (or 16/8) bits would complete a valid permutation
	  b = perm; b[r.below(nd)] += (size_t)1 << 32; bad.push_back(b); b = perm; b[r.below(nd)] += (size_t)7 << 32; bad.push_back(b); b = perm; for (auto &v : b) v += (size_t)1 << 32; bad.push_back(b);
	  b = perm; b[r.below(nd)] += (size_t)1 << 16; bad.push_back(b); b = perm; b[r.below(nd)] += (size_t)1 << 8; bad.push_back(b); b = perm; b[r.below(nd)] += (size_t)1 << 63; bad.push_back(b);
	  for (auto &bp : bad) { phase_log("malformed permutation"); bool threw = false; try { P.permuteDimensions(bp); } catch (std::exception &e) { threw = true; } count("malformed-arguments-tried");
	    if (!threw) { viol("C15:permuteDimensions:malformed-argument-accepted", "{\"argument\":" + jarr(bp) + ",\"case\":" + pj + "}"); break; }
	    bool same = P == T; for (int d = 0; same && d < nd; d++) if (!biteq(P.get_period(d), T.get_period(d)) || !biteq(P.lower_extent(d), T.lower_extent(d))) same = false; if (!same) { viol("C15:permuteDimensions:malformed-argument-changed-the-table", pj); break; } } }
	// C wrapper
	{ Table Q; load(Q, s); Table Q2; load(Q2, s); Q2.permuteDimensions(perm); splinetable h; h.data = &Q; std::vector<size_t> pc = perm; phase_log("C:splinetable_permute"); int rc = splinetable_permute(&h, pc.data()); if (rc != 0 || !(Q == Q2)) viol("C15:C:splinetable_permute:differs-from-C++", pj); for (int d = 0; d < nd; d++) if (!biteq(Q.get_period(d), Q2.get_period(d))) { viol("C15:C:splinetable_permute:differs-from-C++", pj); break; }
	  if (nd >= 2) { std::vector<size_t> dup(nd, 0); rc = splinetable_permute(&h, dup.data()); if (rc == 0) viol("C15:C:splinetable_permute:malformed-argument-accepted", pj); }
	  { std::vector<size_t> wide = perm; wide[r.below(nd)] += (size_t)1 << 32; rc = splinetable_permute(&h, wide.data()); if (rc == 0) viol("C15:C:splinetable_permute:malformed-argument-accepted", pj); } count("C-wrapper-comparisons"); }
	if (cs % 25 == 0) sample(pj);
}

// ================================================================ C17
static void run_C17(const Args &a, long cs) {
	Rng r(a.seed, "C17", cs);
	int nd = r.range(1, 4); Spec s; size_t tot = 1;
	int flavor = (int)r.below(4);
	// the unit of an axis: the same table with coordinates in joule (1.6e-19 per eV), nanoseconds or parsecs in metres; exact powers of ten are not exact in binary, which is the point
	std::vector<double> unit(nd, 1.0); bool unitcase = r.coin(0.3);
	for (int d = 0; d < nd; d++) { unsigned o = (unsigned)r.below(5); int nk = 2 * o + 2 + (int)r.below(nd >= 3 ? 4 : 7); s.order.push_back(o); s.knots.push_back(gen_knots(r, o, nk, flavor == 3 ? 3 : 1, 1.0, r.U() * 4 - 2, false)); tot *= (size_t)(nk - o - 1);
		if (unitcase && r.coin(0.6)) { static const double us[] = {1.602176634e-19, 1e-12, 1e-9, 1e-6, 1e6, 1e12, 3.0857e16, 1e19}; unit[d] = us[r.below(8)]; for (auto &k : s.knots[d]) k *= unit[d]; char b[32]; snprintf(b, sizeof b, "%g", unit[d]); count(std::string("axis-unit:") + b); } else count("axis-unit:1"); }
	double zero_frac = 0.5 + 0.45 * r.U();
	s.coef.resize(tot); for (auto &c : s.coef) c = r.coin(zero_frac) ? 0.f : (float)(r.U() - 0.5);
	if (r.coin(0.5)) { // zero out whole trailing / leading hyperplanes (edges of the coefficient array)
		int d = (int)r.below(nd); long nax = s.naxes(d); size_t inner = 1; for (int e = d + 1; e < nd; e++) inner *= (size_t)s.naxes(e); long kill = 1 + (long)r.below(std::max(1L, nax / 2)); bool trailing = r.coin(0.6);
		for (size_t i = 0; i < tot; i++) { long j = (long)((i / inner) % nax); if (trailing ? j >= nax - kill : j < kill) s.coef[i] = 0.f; }
		count("tables-with-zero-edge-hyperplanes");
	}
	if (r.coin(0.2)) { static const float cs_[] = {1e-19f, 1e-30f, 1e-12f, 1e12f, 1e25f}; float u = cs_[r.below(5)]; for (auto &c : s.coef) c *= u; char b[32]; snprintf(b, sizeof b, "%g", (double)u); count(std::string("coefficient-unit:") + b); } // the unit of the values: grid evaluation is linear in the coefficients
	if (r.coin(0.04)) { for (auto &c : s.coef) c = 0.f; count("tables-with-all-coefficients-zero"); } // the zero function: the correct result is an empty listing
	s.flavor = "grid";
	if (cs % 150 == 149) { // long grids: the product of the index ranges reaches 2^31 / 2^32 although the result (one non-zero coefficient) is tiny
		Spec t; for (int d = 0; d < 4; d++) { t.order.push_back(0); t.knots.push_back({0, 1, 2, 3}); } t.coef.assign(81, 0.f); t.coef[1 * 27 + 1 * 9 + 1 * 3 + 1] = 2.5f; t.flavor = "long-grid";
		Table TL; if (!load(TL, t)) { viol("C17:load:well-formed-table-rejected", t.full_json()); return; }
		static const size_t NS[] = {1300, 1626, 1700, 1291}; size_t N = NS[r.below(4)]; std::vector<std::vector<double>> g(4, std::vector<double>(N, 2.5)); size_t ia = N / 3, ib = 2 * N / 3; for (int d = 0; d < 4; d++) { g[d][ia] = 1.5; g[d][ib] = 1.25; }
		std::string gj2 = "{\"grid_lengths\":[" + std::to_string(N) + "," + std::to_string(N) + "," + std::to_string(N) + "," + std::to_string(N) + "],\"table\":" + t.brief() + "}";
		count("long-grids"); phase_log("grideval (long grid)"); context(gj2); std::unique_ptr<photospline::ndsparse> nl; bool refused = false;
		try { nl = TL.grideval(g); } catch (std::exception &e) { refused = true; }
		if (refused) { count("long-grids-refused-by-exception"); return; } // a request the library cannot serve may be refused, never answered wrongly
		bool okl = nl->rows == 16; for (int d = 0; d < 4 && okl; d++) if (nl->ranges[d] != N) okl = false;
		for (size_t q = 0; okl && q < nl->rows; q++) { for (int d = 0; d < 4; d++) if (nl->i[d][q] != ia && nl->i[d][q] != ib) okl = false; if (nl->x[q] != 2.5) okl = false; }
		if (!okl) viol("C17:grideval:long-grid-result-wrong", "{\"entries\":" + std::to_string(nl->rows) + ",\"ranges\":[" + std::to_string(nl->ranges[0]) + "," + std::to_string(nl->ranges[1]) + "," + std::to_string(nl->ranges[2]) + "," + std::to_string(nl->ranges[3]) + "],\"case\":" + gj2 + "}"); else count("long-grids-evaluated-correctly");
		return;
	}
	Table T; if (!load(T, s)) { viol("C17:load:well-formed-table-rejected", s.full_json()); return; }
	std::vector<std::vector<double>> grid(nd); size_t gtot = 1;
	for (int d = 0; d < nd; d++) { const auto &k = s.knots[d]; int np = r.coin(0.15) ? 1 : 1 + (int)r.below(nd >= 3 ? 5 : 8);
		for (int i = 0; i < np; i++) { double v; switch (r.below(7)) { case 0: v = k[r.below(k.size())]; break; case 1: v = k[0] - (0.5 + r.U()) * unit[d]; break; case 2: v = k.back() + (0.3 + r.U()) * unit[d]; break; case 3: v = std::nextafter(k[1 + r.below(k.size() - 1)], -INFINITY); break; default: v = k[0] + (k.back() - k[0]) * r.U(); } grid[d].push_back(v); }
		if (np > 1 && r.coin(0.3)) grid[d][np - 1] = grid[d][0];
		if (r.coin(0.12)) { // non-finite abscissae (not judged: not inside the knot range), sometimes most of an axis
			static const double nf[] = {NAN, INFINITY, -INFINITY}; size_t how = r.coin(0.5) ? 1 : grid[d].size(); for (size_t q = 0; q < how; q++) if (how == 1 || r.coin(0.8)) grid[d][r.below(grid[d].size())] = nf[r.below(3)];
			if (r.coin(0.3)) { size_t extra = 4 + r.below(12); for (size_t q = 0; q < extra; q++) grid[d].push_back(nf[r.below(3)]); np = (int)grid[d].size(); } count("grid-axes-with-non-finite-abscissae"); }
		gtot *= (size_t)np; }
	std::string gj = "{\"grid_lengths\":["; for (int d = 0; d < nd; d++) gj += (d ? "," : "") + std::to_string(grid[d].size()); gj += "],\"table\":" + s.brief() + "}";
	count("grids"); count("ndim:" + std::to_string(nd)); count("grid-points", (long)gtot);
	phase_log("grideval"); context(gj);
	std::unique_ptr<photospline::ndsparse> nds;
	try { nds = T.grideval(grid); } catch (std::exception &e) { viol("C17:grideval:threw-on-valid-grid", "{\"what\":" + jstr(e.what()) + ",\"case\":" + gj + "}"); return; }
	// C wrapper on the same grid
	struct ::ndsparse *cres = nullptr; { splinetable h; h.data = &T; std::vector<const double *> cp; std::vector<uint32_t> nc; for (int d = 0; d < nd; d++) { cp.push_back(grid[d].data()); nc.push_back((uint32_t)grid[d].size()); } phase_log("C:splinetable_grideval"); int rc = splinetable_grideval(&h, cp.data(), nc.data(), &cres); if (rc != 0 || !cres) viol("C17:C:splinetable_grideval:failed-on-valid-grid", gj); }
	std::map<size_t, double> got; bool structural = true;
	for (int d = 0; d < nd; d++) if (nds->ranges[d] != grid[d].size()) { viol("C17:grideval:index-range-is-not-the-grid-length", gj); structural = false; break; }
	if (structural) for (size_t q = 0; q < nds->rows; q++) { size_t lin = 0; bool okidx = true; for (int d = 0; d < nd; d++) { if (nds->i[d][q] >= grid[d].size()) okidx = false; lin = lin * grid[d].size() + nds->i[d][q]; } if (!okidx) { viol("C17:grideval:index-outside-the-grid", gj); structural = false; break; } if (got.count(lin)) { viol("C17:grideval:duplicate-index-tuple", gj); structural = false; break; } got[lin] = nds->x[q]; }
	if (cres) {
		bool same = cres->rows == nds->rows && cres->ndim == nds->ndim; std::map<size_t, double> g2;
		if (same) for (size_t q = 0; q < cres->rows; q++) { size_t lin = 0; for (int d = 0; d < nd; d++) lin = lin * grid[d].size() + cres->i[d][q]; g2[lin] = cres->x[q]; }
		if (same && structural) { for (auto &kv : got) if (!g2.count(kv.first) || !biteq(g2[kv.first], kv.second)) same = false; }
		if (!same && structural) viol("C17:C:splinetable_grideval:differs-from-C++", gj);
		ndsparse_destroy(cres); count("C-wrapper-comparisons");
	}
	if (!structural) return;
	std::vector<size_t> I(nd); std::vector<double> x(nd); std::vector<int> c(nd);
	LD cmax = 0; for (float cc : s.coef) cmax = std::max(cmax, fabsl((LD)cc));
	for (size_t lin = 0; lin < gtot; lin++) {
		size_t q = lin; bool inside = true; for (int d = nd - 1; d >= 0; d--) { I[d] = q % grid[d].size(); q /= grid[d].size(); x[d] = grid[d][I[d]]; const auto &k = s.knots[d]; if (!(x[d] > k[0] && x[d] < k.back())) inside = false; }
		if (!inside) { count("grid-points-outside(not-judged)"); continue; }
		if (!T.searchcenters(x.data(), c.data())) { viol("C17:searchcenters:fails-strictly-inside-knot-range", gj); break; }
		double pv = T.ndsplineeval<float>(x.data(), c.data(), 0);
		RefVal rv = ref_eval_point(s, x.data(), nullptr); LD tol = ref_tol(s, rv, false) * 4 + 64 * ldexpl(1, -53) * rv.M;
		// the grid path uses the half-open basis of the fitter: identical inside, but at the very top of the support of the last basis function the two conventions differ only outside (x < last knot here)
		bool listed = got.count(lin) > 0; double gv = listed ? got[lin] : 0.0;
		count("grid-points-checked"); if (listed) count("grid-points-listed"); else count("grid-points-unlisted");
		uint64_t h = s.hash(); for (double v : x) h = hash_d(h, v); distinct(h);
		bool pointwise_ok = fabsl((LD)pv - rv.S) <= tol;
		if (!pointwise_ok) note("pointwise-evaluation-disagrees-with-reference(C01's business)");
		LD refv = rv.S;
		if (!(fabsl((LD)gv - refv) <= tol) && !(fabsl((LD)gv - (LD)pv) <= tol)) {
			viol(std::string("C17:grideval:") + (listed ? "listed-value-differs-from-pointwise-evaluation" : "unlisted-point-is-not-zero"), "{\"grid_value\":" + jnum(gv) + ",\"pointwise\":" + jnum(pv) + ",\"reference\":" + jnum((double)refv) + ",\"tol\":" + jnum((double)tol) + ",\"x\":" + jarrd(x) + ",\"case\":" + gj + ",\"table\":" + s.full_json() + "}");
			break;
		}
	}
	if (cs % 20 == 0) sample(gj);
}

// ================================================================ C14thr / C17thr: the same operations on independent tables in concurrent threads
// Every thread owns its table (loaded beforehand, sequentially); the result must be bit-identical to the one obtained sequentially. Built for the
// production flags (value comparison) and with ThreadSanitizer (any report on state shared behind the caller's back).
#include <thread>
#include <atomic>
static uint64_t table_digest(const Table &T) {
	uint64_t h = hash_mix(77, T.get_ndim());
	for (unsigned d = 0; d < T.get_ndim(); d++) { h = hash_mix(h, T.get_order(d)); for (uint64_t i = 0; i < T.get_nknots(d); i++) h = hash_d(h, T.get_knot(d, i)); h = hash_d(h, T.lower_extent(d)); h = hash_d(h, T.upper_extent(d)); }
	const float *c = T.get_coefficients(); for (uint64_t i = 0; i < T.get_ncoeffs(); i++) { uint32_t u; memcpy(&u, c + i, 4); h = hash_mix(h, u); }
	return h;
}
static void run_thr(const Args &a, long cs, bool conv) {
	Rng r(a.seed, conv ? "C14thr" : "C17thr", cs);
	const int NT = 4; std::vector<Spec> sp(NT); std::vector<std::vector<double>> tau(NT); std::vector<int> dims(NT); std::vector<std::vector<std::vector<double>>> grids(NT);
	for (int t = 0; t < NT; t++) {
		int nd = r.range(1, 3); Spec s; size_t tot = 1; dims[t] = (int)r.below(nd);
		for (int d = 0; d < nd; d++) { unsigned o = (unsigned)r.below(4); int nk = 2 * o + 2 + (int)r.below(5); s.order.push_back(o); s.knots.push_back(gen_knots(r, o, nk, 1, 1.0, r.U() * 4 - 2, true)); tot *= (size_t)(nk - o - 1); }
		s.coef.resize(tot); for (auto &c : s.coef) c = r.coin(0.3) ? 0.f : (float)(r.U() - 0.3); s.coef[r.below(tot)] = 1.f; s.flavor = "thr"; sp[t] = s;
		int n = r.range(2, 4); double y0 = -r.U(); for (int i = 0; i < n; i++) { tau[t].push_back(y0); y0 += 0.1 + r.U(); }
		grids[t].resize(nd); for (int d = 0; d < nd; d++) { int np = 2 + (int)r.below(6); for (int i = 0; i < np; i++) grids[t][d].push_back(s.knots[d][0] + (s.knots[d].back() - s.knots[d][0]) * r.U()); }
	}
	auto job = [&](int t, Table &T) -> uint64_t {
		if (conv) { T.convolve((uint32_t)dims[t], tau[t].data(), tau[t].size()); return table_digest(T); }
		std::unique_ptr<photospline::ndsparse> nds = T.grideval(grids[t]); uint64_t h = hash_mix(5, nds->rows); for (size_t q = 0; q < nds->rows; q++) { for (size_t d = 0; d < nds->ndim; d++) h = hash_mix(h, nds->i[d][q]); h = hash_d(h, nds->x[q]); } return h;
	};
	std::vector<uint64_t> seqd(NT), thrd(NT, 0); std::vector<Table> seqT(NT), thrT(NT); std::vector<int> failed(NT, 0);
	for (int t = 0; t < NT; t++) { if (!load(seqT[t], sp[t]) || !load(thrT[t], sp[t])) { viol(std::string(conv ? "C14" : "C17") + ":load:well-formed-table-rejected", sp[t].full_json()); return; } }
	phase_log(conv ? "sequential convolutions" : "sequential grid evaluations");
	for (int t = 0; t < NT; t++) { try { seqd[t] = job(t, seqT[t]); } catch (std::exception &e) { viol(std::string(conv ? "C14:convolve" : "C17:grideval") + ":threw-on-valid-input", "{\"what\":" + jstr(e.what()) + "}"); return; } }
	phase_log(conv ? "concurrent convolutions" : "concurrent grid evaluations");
	std::atomic<int> go(0); std::vector<std::thread> th;
	for (int t = 0; t < NT; t++) th.emplace_back([&, t]() { go.fetch_add(1); while (go.load() < NT) { } try { thrd[t] = job(t, thrT[t]); } catch (...) { failed[t] = 1; } });
	for (auto &x : th) x.join();
	count(conv ? "concurrent-convolution-rounds" : "concurrent-grideval-rounds"); count("concurrent-operations", NT);
	for (int t = 0; t < NT; t++) { distinct(hash_mix(seqd[t], t)); if (failed[t] || thrd[t] != seqd[t]) { viol(std::string(conv ? "C14:convolve" : "C17:grideval") + ":result-differs-when-run-concurrently-with-calls-on-other-tables", "{\"threw\":" + std::to_string(failed[t]) + ",\"table\":" + sp[t].brief() + "}"); break; } }
}

// ================================================================ C06hist / C14hist / C15hist / C17hist: the judged operation after a random history
// History independence: whatever a table has been through (permutations, convolutions, serialisation round trips, moves, refused requests), the next
// operation must give exactly - bit for bit - what it gives on a freshly loaded table with the same observable content. The per-operation oracles above
// work on freshly loaded tables; this pass extends them to tables with a history (stale strides / extents / periods / scratch state left by an earlier call).
static Spec full_spec_of(const Table &T) {
	Spec s = spec_of(T);
	for (unsigned d = 0; d < T.get_ndim(); d++) { s.extents.push_back(T.lower_extent(d)); s.extents.push_back(T.upper_extent(d)); s.periods.push_back(T.get_period(d)); }
	for (size_t i = 0; i < T.get_naux_values(); i++) { const char *k = T.get_aux_key(i); const char *v = T.get_aux_value(k); s.aux.push_back({k, v ? v : ""}); }
	return s;
}
static std::string rtrim(std::string v) { while (!v.empty() && v.back() == ' ') v.pop_back(); return v; }
// first observable difference between two tables ("" = none): every getter, operator==, and evaluation through the table and the evaluator object
static std::string table_diff(const Table &A, const Table &B, Rng &r, int npts) {
	if (A.get_ndim() != B.get_ndim()) return "ndim"; unsigned nd = A.get_ndim();
	for (unsigned d = 0; d < nd; d++) {
		if (A.get_order(d) != B.get_order(d)) return "order"; if (A.get_nknots(d) != B.get_nknots(d)) return "nknots"; if (A.get_ncoeffs(d) != B.get_ncoeffs(d)) return "naxes";
		if (memcmp(A.get_knots(d), B.get_knots(d), 8 * A.get_nknots(d))) return "knots"; if (A.get_stride(d) != B.get_stride(d)) return "strides";
		if (!biteq(A.lower_extent(d), B.lower_extent(d)) || !biteq(A.upper_extent(d), B.upper_extent(d))) return "extents"; if (!biteq(A.get_period(d), B.get_period(d))) return "periods";
	}
	if (A.get_ncoeffs() != B.get_ncoeffs()) return "ncoeffs"; if (memcmp(A.get_coefficients(), B.get_coefficients(), 4 * A.get_ncoeffs())) return "coefficients";
	if (A.get_naux_values() != B.get_naux_values()) return "aux-count";
	for (size_t i = 0; i < A.get_naux_values(); i++) { if (strcmp(A.get_aux_key(i), B.get_aux_key(i))) return "aux-key-order"; if (rtrim(A.get_aux_value(A.get_aux_key(i))) != rtrim(B.get_aux_value(B.get_aux_key(i)))) return "aux-value"; }
	bool nan = false; for (uint64_t i = 0; i < A.get_ncoeffs(); i++) if (std::isnan(A.get_coefficients()[i])) nan = true;
	if (!nan && (!(A == B) || !(B == A))) return "operator==";
	std::vector<double> x(nd); std::vector<int> ca(nd), cb(nd); auto EA = A.get_evaluator<float>(); auto EB = B.get_evaluator<float>();
	for (int p = 0; p < npts; p++) {
		for (unsigned d = 0; d < nd; d++) { const double *k = A.get_knots(d); uint64_t nk = A.get_nknots(d); x[d] = r.coin(0.2) ? k[r.below(nk)] : k[0] + (k[nk - 1] - k[0]) * (r.U() * 1.1 - 0.05); }
		bool fa = A.searchcenters(x.data(), ca.data()), fb = B.searchcenters(x.data(), cb.data()); if (fa != fb || (fa && ca != cb)) return "searchcenters";
		if (!biteq(A(x.data()), B(x.data()))) return "call-operator"; if (!biteq(EA(x.data(), 0), EB(x.data(), 0))) return "evaluator";
		if (!fa) continue;
		if (!biteq(A.ndsplineeval<double>(x.data(), ca.data(), 0), B.ndsplineeval<double>(x.data(), cb.data(), 0))) return "ndsplineeval";
		unsigned m = (unsigned)r.below(1u << std::min(nd, 6u)); if (!biteq(A.ndsplineeval<double>(x.data(), ca.data(), m), B.ndsplineeval<double>(x.data(), cb.data(), m))) return "ndsplineeval(derivative)";
		if (nd < 8) { std::vector<double> ga(nd + 1), gb(nd + 1); A.ndsplineeval_gradient(x.data(), ca.data(), ga.data()); B.ndsplineeval_gradient(x.data(), cb.data(), gb.data()); if (memcmp(ga.data(), gb.data(), 8 * (nd + 1))) return "gradient"; }
		count("hist:evaluations-compared");
	}
	return "";
}
static uint64_t sparse_digest(const photospline::ndsparse &n) { uint64_t h = hash_mix(5, n.rows); h = hash_mix(h, n.ndim); for (size_t d = 0; d < n.ndim; d++) h = hash_mix(h, n.ranges[d]); for (size_t q = 0; q < n.rows; q++) { for (size_t d = 0; d < n.ndim; d++) h = hash_mix(h, n.i[d][q]); h = hash_d(h, n.x[q]); } return h; }
static std::vector<size_t> rand_perm(Rng &r, unsigned nd) { std::vector<size_t> p(nd); std::iota(p.begin(), p.end(), 0); for (int i = (int)nd - 1; i > 0; i--) std::swap(p[i], p[r.below(i + 1)]); return p; }
static bool rand_kernel(Rng &r, const Table &T, unsigned &dim, std::vector<double> &tau) { // a convolution that keeps the table small and the order <= 5
	unsigned nd = T.get_ndim(); dim = (unsigned)r.below(nd); int n = r.range(2, 3); if (T.get_order(dim) + n - 1 > 5) return false;
	uint64_t newax = T.get_nknots(dim) * n - (T.get_order(dim) + n - 1) - 1; if (T.get_ncoeffs() / T.get_ncoeffs(dim) * newax > 6000) return false;
	double span = T.get_knot(dim, T.get_nknots(dim) - 1) - T.get_knot(dim, 0); tau.clear(); double y = -0.13 * span * r.U(); for (int i = 0; i < n; i++) { tau.push_back(y); y += span * (0.02 + 0.1 * r.U()); }
	return true;
}
static void run_hist(const Args &a, long cs, const std::string &judged) {
	Rng r(a.seed, judged.c_str(), cs);
	int nd = r.range(1, 4); Spec s; size_t tot = 1;
	for (int d = 0; d < nd; d++) { unsigned o = (unsigned)r.below(4); int nk = 2 * o + 2 + (int)r.below(4) + (d == 0 ? 1 : 0); s.order.push_back(o); s.knots.push_back(gen_knots(r, o, nk, r.coin(0.25) ? 3 : 1, 1.0, r.U() * 4 - 2, false)); tot *= (size_t)(nk - o - 1); s.periods.push_back(r.coin(0.5) ? 0.0 : 0.25 * (d + 1)); }
	s.coef.resize(tot); for (auto &c : s.coef) c = r.coin(0.2) ? 0.f : (float)(r.U() - 0.4);
	if (r.coin(0.5)) add_custom_extents(r, s);
	int naux = (int)r.below(4); for (int i = 0; i < naux; i++) s.aux.push_back({i == 1 ? "A_LONGER_KEYWORD" : "KEY" + std::to_string(i), i == 2 ? "3.5" : "value " + std::to_string(i)});
	s.flavor = "hist";
	std::unique_ptr<Table> T(new Table); std::string hist; int startkind = (int)r.below(20);
	if (startkind < 5) { // the table is born in a fit (no file behind it: extents, periods and the aux store are what fit leaves)
		int fd = r.range(1, 2); std::vector<uint32_t> ord(fd), por(fd); std::vector<std::vector<double>> kn(fd), co(fd); std::vector<double> lam(fd); size_t npt = 1;
		for (int d = 0; d < fd; d++) { ord[d] = (uint32_t)r.below(4); por[d] = (uint32_t)r.below(ord[d] + 1); kn[d] = gen_knots(r, ord[d], 2 * ord[d] + 2 + (int)r.below(4) + (d == 0 ? 1 : 0), 1, 1.0, r.U() * 4 - 2, true); int np = (int)kn[d].size() + 4; for (int i = 0; i < np; i++) co[d].push_back(kn[d][0] + (kn[d].back() - kn[d][0]) * (0.01 + 0.98 * (i + 0.5) / np)); npt *= np; lam[d] = 0.05; }
		photospline::ndsparse data(npt, fd); std::vector<double> w(npt, 1.0); std::vector<unsigned> I(fd); for (size_t lin = 0; lin < npt; lin++) { size_t q = lin; for (int d = fd - 1; d >= 0; d--) { I[d] = (unsigned)(q % co[d].size()); q /= co[d].size(); } data.insertEntry(std::sin(0.37 * lin) + 1.5, I.data()); }
		phase_log("history: fit"); hist += "fit(" + std::to_string(fd) + "d);"; try { T->fit(data, w, co, ord, kn, lam, por, Table::no_monodim, false); } catch (std::exception &e) { note("hist:fit-refused(skipped)"); return; } count("hist:tables-born-in-a-fit");
	} else {
		if (!load(*T, s)) { viol(prop_id() + ":load:well-formed-table-rejected", s.full_json()); return; }
		if (startkind < 8 && nd <= 3 && tot <= 400) { // ... or by stacking copies of a loaded table along a new last dimension
			int nl = r.range(2, 4); std::vector<Table *> lay(nl, T.get()); std::vector<double> zs; double z = -1.0; for (int i = 0; i < nl; i++) { zs.push_back(z); z += 0.5 + r.U(); }
			phase_log("history: stacking constructor"); hist += "stack(" + std::to_string(nl) + ");"; std::unique_ptr<Table> S(new Table(lay, zs, r.range(1, std::min(3, nl)))); T = std::move(S); count("hist:tables-born-by-stacking"); }
	}
	int nops = r.range(1, 5);
	for (int op = 0; op < nops; op++) {
		switch (r.below(11)) {
		case 0: case 1: { std::vector<size_t> p = rand_perm(r, T->get_ndim()); hist += "permute" + jarr(p) + ";"; phase_log("history: permuteDimensions"); T->permuteDimensions(p); break; }
		case 2: case 3: { unsigned dim; std::vector<double> tau; if (!rand_kernel(r, *T, dim, tau)) break; bool rep = false; for (uint64_t i = 1; i < T->get_nknots(dim); i++) if (T->get_knot(dim, i) == T->get_knot(dim, i - 1)) rep = true; if (rep) break; // repeated knots in the convolved dimension: recorded C14 finding (NaN coefficients)
			hist += "convolve(dim" + std::to_string(dim) + "," + std::to_string(tau.size()) + "knots);"; phase_log("history: convolve"); T->convolve(dim, tau.data(), tau.size()); break; }
		case 4: { hist += "roundtrip(mem);"; phase_log("history: write_fits_mem/read_fits_mem"); auto w = T->write_fits_mem(); std::unique_ptr<Table> N(new Table); N->read_fits_mem(w.first, w.second); free(w.first); T = std::move(N); break; }
		case 5: { hist += "move;"; phase_log("history: move construction"); std::unique_ptr<Table> N(new Table(std::move(*T))); T = std::move(N); break; }
		case 6: { hist += "refused-requests;"; phase_log("history: refused requests"); std::vector<size_t> p(T->get_ndim(), 0); if (T->get_ndim() == 1) p[0] = 1; try { T->permuteDimensions(p); } catch (std::exception &) { } double kn[2] = {0.5, -0.5}; try { T->convolve(0, kn, 2); } catch (std::exception &) { } try { T->convolve(T->get_ndim(), kn, 2); } catch (std::exception &) { } break; }
		case 7: { hist += "grideval;"; phase_log("history: grideval"); std::vector<std::vector<double>> g(T->get_ndim()); for (unsigned d = 0; d < T->get_ndim(); d++) for (int i = 0; i < 3; i++) g[d].push_back(T->get_knot(d, 0) + (T->get_knot(d, T->get_nknots(d) - 1) - T->get_knot(d, 0)) * r.U()); auto res = T->grideval(g); break; }
		case 8: case 9: { hist += "evaluate;"; phase_log("history: evaluation"); unsigned n0 = T->get_ndim(); std::vector<double> x(n0); std::vector<int> c(n0); auto E = T->get_evaluator<double>(); volatile double sink = 0;
			for (int q = 0; q < 3; q++) { for (unsigned d = 0; d < n0; d++) x[d] = T->get_knot(d, 0) + (T->get_knot(d, T->get_nknots(d) - 1) - T->get_knot(d, 0)) * r.U(); sink = (*T)(x.data()); sink = E(x.data(), 0); if (T->searchcenters(x.data(), c.data())) { sink = T->ndsplineeval<float>(x.data(), c.data(), 0); sink = T->ndsplineeval<double>(x.data(), c.data(), 1); std::vector<unsigned> de(n0, 0); de[r.below(n0)] = 1; sink = T->ndsplineeval_deriv(x.data(), c.data(), de.data()); if (n0 < 8) { std::vector<double> g(n0 + 1); T->ndsplineeval_gradient(x.data(), c.data(), g.data()); } } } (void)sink; break; }
		default: { hist += "write_key;"; phase_log("history: write_key/remove_key"); T->write_key("HISTKEY", (int)r.below(100)); if (r.coin(0.5)) T->remove_key("KEY0"); break; }
		}
		bool fin = true; for (uint64_t i = 0; i < T->get_ncoeffs(); i++) if (!std::isfinite(T->get_coefficients()[i])) fin = false; if (!fin) { note("hist:history-produced-non-finite-coefficients(skipped)"); return; }
	}
	// the fresh twin: same observable content, no history
	Spec fs = full_spec_of(*T); fs.flavor = "hist-twin"; Table F; if (!load(F, fs)) { viol(prop_id() + ":" + judged + ":table-with-a-history-cannot-be-reloaded-from-its-observable-content", "{\"history\":" + jstr(hist) + ",\"table\":" + s.brief() + "}"); return; }
	std::string hj = "{\"history\":" + jstr(hist) + ",\"start\":" + s.full_json() + "}"; context(hj);
	// the table with a history against a fresh load of its own observable content: whatever differs now is state the getters do not show but later calls depend on
	{ std::string d0 = table_diff(*T, F, r, judged == "C01hist" ? 30 : 4); if (!d0.empty()) { viol(prop_id() + ":" + judged + ":table-with-a-history-differs-from-a-fresh-load-of-its-own-observable-content:" + d0, hj); return; } }
	if (judged == "C01hist") { count("hist:histories"); count("hist:history-length:" + std::to_string(nops)); count("hist:judged-evaluation-sets"); distinct(hash_mix(hash_str(hist), s.hash())); if (cs % 40 == 0) sample("{\"judged\":\"evaluation\",\"history\":" + jstr(hist) + ",\"table\":" + s.brief() + "}"); return; }
	count("hist:histories"); count("hist:history-length:" + std::to_string(nops)); distinct(hash_mix(hash_str(hist), s.hash()));
	std::string key;
	if (judged == "C15hist") { std::vector<size_t> p = rand_perm(r, T->get_ndim()); phase_log("judged: permuteDimensions"); T->permuteDimensions(p); F.permuteDimensions(p); key = "permuteDimensions"; count("hist:judged-permutations"); }
	else if (judged == "C14hist") { unsigned dim; std::vector<double> tau; if (!rand_kernel(r, *T, dim, tau)) { count("hist:no-admissible-convolution"); return; } phase_log("judged: convolve"); bool ta = false, tb = false; try { T->convolve(dim, tau.data(), tau.size()); } catch (std::exception &) { ta = true; } try { F.convolve(dim, tau.data(), tau.size()); } catch (std::exception &) { tb = true; } key = "convolve"; count("hist:judged-convolutions"); if (ta != tb) { viol("C14:convolve:after-a-history:refusal-differs-from-the-freshly-loaded-table", hj); return; } if (ta) return; }
	else if (judged == "C17hist") { std::vector<std::vector<double>> g(T->get_ndim()); for (unsigned d = 0; d < T->get_ndim(); d++) { int np = r.range(1, 5); for (int i = 0; i < np; i++) g[d].push_back(r.coin(0.2) ? T->get_knot(d, r.below(T->get_nknots(d))) : T->get_knot(d, 0) + (T->get_knot(d, T->get_nknots(d) - 1) - T->get_knot(d, 0)) * (r.U() * 1.2 - 0.1)); }
		phase_log("judged: grideval"); auto ra = T->grideval(g); auto rb = F.grideval(g); count("hist:judged-grid-evaluations"); if (sparse_digest(*ra) != sparse_digest(*rb)) { viol("C17:grideval:after-a-history:differs-from-the-freshly-loaded-table", hj); return; } key = "grideval"; }
	else { phase_log("judged: write_fits_mem"); auto wa = T->write_fits_mem(); auto wb = F.write_fits_mem(); bool padded = false; for (size_t i = 0; i < T->get_naux_values(); i++) if (strcmp(T->get_aux_value(T->get_aux_key(i)), F.get_aux_value(F.get_aux_key(i)))) padded = true; // a value set through write_key has no trailing blanks, the twin's (read from a file) may: "values may gain trailing blanks only"
		bool same = wa.second == wb.second && (padded || memcmp(wa.first, wb.first, wa.second) == 0); count("hist:judged-serialisations"); if (padded) count("hist:serialisations-compared-after-reading-back-only(aux-values-differ-in-trailing-blanks)"); else count("hist:bytes-compared", (long)wa.second);
		if (same && padded) { Table R1, R2; R1.read_fits_mem(wa.first, wa.second); R2.read_fits_mem(wb.first, wb.second); std::string d2 = table_diff(R1, R2, r, 4); if (!d2.empty()) { viol("C06:write_fits_mem:after-a-history:reads-back-different-from-the-freshly-loaded-table:" + d2, hj); free(wa.first); free(wb.first); return; } }
		if (!same) { viol("C06:write_fits_mem:after-a-history:bytes-differ-from-those-of-the-freshly-loaded-table", hj); free(wa.first); free(wb.first); return; }
		Table R; R.read_fits_mem(wa.first, wa.second); free(wa.first); free(wb.first); std::string d1 = table_diff(R, *T, r, 4); if (!d1.empty()) { viol("C06:round-trip:after-a-history:" + d1, hj); return; } key = "write_fits_mem"; }
	std::string d = table_diff(*T, F, r, 8);
	if (!d.empty()) viol(prop_id() + ":" + key + ":after-a-history:differs-from-the-freshly-loaded-table:" + d, hj);
	if (cs % 40 == 0) sample("{\"judged\":" + jstr(key) + ",\"history\":" + jstr(hist) + ",\"table\":" + s.brief() + "}");
}

int main(int argc, char **argv) {
	Args a = parse_args(argc, argv);
	open_out(a.outpath);
	for (long cs = a.from; cs < a.to; cs++) {
		begin_case(cs);
		if (a.prop.size() == 7 && a.prop.substr(3) == "hist") { std::string j = a.prop; prop_id() = j.substr(0, 3); run_hist(a, cs, j); continue; }
		if (a.prop == "C14") run_C14(a, cs);
		else if (a.prop == "C15") run_C15(a, cs);
		else if (a.prop == "C17") run_C17(a, cs);
		else if (a.prop == "C14thr") { prop_id() = "C14"; run_thr(a, cs, true); }
		else if (a.prop == "C17thr") { prop_id() = "C17"; run_thr(a, cs, false); }
		else { fprintf(stderr, "unknown mode %s\n", a.prop.c_str()); return 2; }
	}
	for (auto &kv : g_worst) out().counters["max-ratio-x1000:order+kernelknots=" + std::to_string(kv.first)] = (long)(kv.second * 1000);
	finish();
	fflush(stdout);
	_exit(0);
}
