// h_nnls.cpp - C11: the four exported NNLS solvers against a brute-force active-set oracle (n <= 12)
// and the KKT residual (any n).
#include "vf.h"
#include <cholmod.h>
#include <photospline/detail/splineutil.h>
#include <float.h>
#include <pthread.h>

using namespace vf;
typedef long double LD;

static cholmod_common CC;
static volatile int g_in_solver = 0; static const char *g_solver_name = "";
static void on_exit_handler() {
	if (g_in_solver) { viol(std::string("C11:") + g_solver_name + ":called-exit", "{}"); finish_early_and_exit(); }
}

struct Prob { int n; std::vector<double> A, b; std::string kind; std::vector<double> B; int m = 0; std::vector<double> ydata; double lmin_lb = 0;
	std::vector<double> D, A0, b0; }; // A column-major n x n; D non-empty: A = D A0 D, b = D b0 with D a diagonal of powers of two (the same problem with every variable in a unit of its own)

// dense SPD solve by Cholesky in long double; returns false if not positive definite
static bool chol_solve(int n, const std::vector<LD> &A, const std::vector<LD> &b, std::vector<LD> &x) {
	std::vector<LD> L(n * n, 0);
	for (int j = 0; j < n; j++) {
		LD s = A[j * n + j]; for (int k = 0; k < j; k++) s -= L[j * n + k] * L[j * n + k];
		if (!(s > 0)) return false; L[j * n + j] = sqrtl(s);
		for (int i = j + 1; i < n; i++) { LD t = A[i * n + j]; for (int k = 0; k < j; k++) t -= L[i * n + k] * L[j * n + k]; L[i * n + j] = t / L[j * n + j]; }
	}
	std::vector<LD> y(n); x.assign(n, 0);
	for (int i = 0; i < n; i++) { LD t = b[i]; for (int k = 0; k < i; k++) t -= L[i * n + k] * y[k]; y[i] = t / L[i * n + i]; }
	for (int i = n - 1; i >= 0; i--) { LD t = y[i]; for (int k = i + 1; k < n; k++) t -= L[k * n + i] * x[k]; x[i] = t / L[i * n + i]; }
	return true;
}
// brute force: the unique minimiser of 1/2 x'Ax - b'x s.t. x >= 0 (A SPD)
static bool oracle(const Prob &p, std::vector<LD> &xo) {
	int n = p.n; LD best = 1e300L; bool found = false;
	LD scale = 0; for (int i = 0; i < n; i++) scale = std::max(scale, fabsl((LD)p.b[i]));
	for (unsigned S = 0; S < (1u << n); S++) {
		std::vector<int> idx; for (int i = 0; i < n; i++) if (S >> i & 1) idx.push_back(i);
		int k = (int)idx.size(); std::vector<LD> xs(n, 0);
		if (k) {
			std::vector<LD> As(k * k), bs(k), sol;
			for (int a = 0; a < k; a++) { bs[a] = p.b[idx[a]]; for (int c = 0; c < k; c++) As[a * k + c] = p.A[idx[a] + (size_t)n * idx[c]]; }
			if (!chol_solve(k, As, bs, sol)) continue;
			for (int a = 0; a < k; a++) xs[idx[a]] = sol[a];
		}
		LD viol_ = 0;
		for (int i = 0; i < n; i++) { if (xs[i] < 0) viol_ = std::max(viol_, -xs[i]); }
		for (int i = 0; i < n; i++) if (!(S >> i & 1)) { LD g = -(LD)p.b[i]; for (int j = 0; j < n; j++) g += (LD)p.A[i + (size_t)n * j] * xs[j]; if (g < 0) viol_ = std::max(viol_, -g); }
		if (viol_ < best) { best = viol_; xo = xs; found = true; }
	}
	return found && best <= 1e-13L * (scale + 1);
}
static double lambda_min(const Prob &p) { // cyclic Jacobi
	int n = p.n; std::vector<double> a(p.A);
	for (int sweep = 0; sweep < 60; sweep++) {
		double off = 0; for (int i = 0; i < n; i++) for (int j = 0; j < n; j++) if (i != j) off += a[i + n * j] * a[i + n * j];
		if (off < 1e-30) break;
		for (int pi = 0; pi < n; pi++) for (int q = pi + 1; q < n; q++) {
			double apq = a[pi + n * q]; if (std::fabs(apq) < 1e-300) continue;
			double th = (a[q + n * q] - a[pi + n * pi]) / (2 * apq), t = (th >= 0 ? 1 : -1) / (std::fabs(th) + std::sqrt(th * th + 1)), c = 1 / std::sqrt(t * t + 1), s = t * c;
			for (int k = 0; k < n; k++) { double akp = a[k + n * pi], akq = a[k + n * q]; a[k + n * pi] = c * akp - s * akq; a[k + n * q] = s * akp + c * akq; }
			for (int k = 0; k < n; k++) { double apk = a[pi + n * k], aqk = a[q + n * k]; a[pi + n * k] = c * apk - s * aqk; a[q + n * k] = s * apk + c * aqk; }
		}
	}
	double m = a[0]; for (int i = 1; i < n; i++) m = std::min(m, a[i + n * i]); return m;
}

static Prob gen(Rng &r, bool small) {
	Prob p; int kind = (int)r.below(5);
	if (!small && r.coin(0.12)) { // a chain: tridiagonal, well conditioned, and a right-hand side whose optimum has a support of hundreds of coefficients that an active-set
		// method can only reach one neighbour at a time
		int n = r.range(250, 500); p.n = n; p.A.assign((size_t)n * n, 0); p.b.assign(n, 0); double dg = 2.0 + std::pow(10.0, -(double)r.range(2, 4));
		for (int i = 0; i < n; i++) { p.A[i + (size_t)n * i] = dg; if (i + 1 < n) { p.A[i + (size_t)n * (i + 1)] = -1; p.A[i + 1 + (size_t)n * i] = -1; } p.b[i] = -1e-4 * (0.5 + r.U()); }
		p.b[r.coin(0.5) ? 0 : n / 2] = 10 + 20 * r.U(); p.lmin_lb = dg - 2; p.kind = "chain(tridiagonal)/long-support"; p.m = 0; return p;
	}
	int n = small ? r.range(2, 12) : r.range(20, 300);
	p.n = n; p.A.assign((size_t)n * n, 0); p.b.assign(n, 0);
	double eps = std::pow(10.0, -(double)r.range(1, 4));
	if (kind == 3) { // banded Gram matrix (B-spline like): A = T'T + eps I with T banded
		int bw = r.range(1, 4); int m = n + bw; std::vector<double> Tm((size_t)m * n, 0);
		for (int j = 0; j < n; j++) for (int i = j; i <= j + bw; i++) Tm[i + (size_t)m * j] = 0.2 + r.U();
		for (int i = 0; i < n; i++) for (int j = 0; j < n; j++) { if (std::abs(i - j) > bw) continue; double s = 0; for (int k = 0; k < m; k++) s += Tm[k + (size_t)m * i] * Tm[k + (size_t)m * j]; p.A[i + (size_t)n * j] = s + (i == j ? eps : 0); }
		p.kind = "banded-gram"; p.B = Tm; p.m = m; p.lmin_lb = eps;
	} else {
		int m = n + (int)r.below(6); double dens = small ? 0.5 : std::min(1.0, 6.0 / n);
		std::vector<double> B((size_t)m * n, 0);
		for (auto &v : B) v = r.coin(dens) ? r.U() - 0.35 : 0;
		if (small) { for (int i = 0; i < n; i++) for (int j = 0; j < n; j++) { double s = 0; for (int k = 0; k < m; k++) s += B[k + (size_t)m * i] * B[k + (size_t)m * j]; p.A[i + (size_t)n * j] = s + (i == j ? eps : 0); } }
		else { // sparse large: accumulate row-wise
			for (int k = 0; k < m; k++) { std::vector<int> nz; for (int i = 0; i < n; i++) if (B[k + (size_t)m * i] != 0) nz.push_back(i); for (int a : nz) for (int c : nz) p.A[a + (size_t)n * c] += B[k + (size_t)m * a] * B[k + (size_t)m * c]; }
			for (int i = 0; i < n; i++) p.A[i + (size_t)n * i] += eps + 0.05;
		}
		p.lmin_lb = small ? eps : eps + 0.05;
		p.kind = small ? "dense-BtB" : "sparse-BtB"; p.B = B; p.m = m;
	}
	// right hand side
	int bk = (int)r.below(3);
	if (bk == 0 || kind == 4) { // degenerate: built backwards from x0,y0 with ties
		std::vector<double> xs(n, 0), ys(n, 0);
		for (int i = 0; i < n; i++) { int q = (int)r.below(3); if (q == 0) xs[i] = r.U(); else if (q == 1) ys[i] = r.U(); }
		for (int i = 0; i < n; i++) { double s = 0; for (int j = 0; j < n; j++) s += p.A[i + (size_t)n * j] * xs[j]; p.b[i] = s - ys[i]; }
		p.kind += "/degenerate";
	} else if (bk == 1) { for (int i = 0; i < n; i++) p.b[i] = r.U() - 0.4; p.kind += "/random-b"; }
	else { std::vector<double> y(p.m); for (auto &v : y) v = r.U() - 0.4; for (int i = 0; i < n; i++) { double s = 0; for (int k = 0; k < p.m; k++) s += p.B[k + (size_t)p.m * i] * y[k]; p.b[i] = s; } p.kind += "/Bt-y"; }
	// diagonal scaling D A D, D b: uniform factors up to 1e+-6 (tests the absolute tolerances, conditioning unchanged) or
	// non-uniform factors up to 1e+-2 (conditioning worsens by at most 1e8, still positive definite in double precision)
	if (r.coin(0.3)) {
		std::vector<double> D(n); int e; double dmin = 1e300;
		if (r.coin(0.5)) { e = r.range(1, 6); double d0 = std::pow(10.0, (r.coin(0.5) ? 1 : -1) * e); for (auto &d : D) d = d0; p.kind += "/scaled-uniform1e" + std::to_string(e); }
		else { e = r.range(1, 2); for (auto &d : D) d = std::pow(10.0, (r.U() * 2 - 1) * e); p.kind += "/scaled-nonuniform1e" + std::to_string(e); }
		for (int i = 0; i < n; i++) { for (int j = 0; j < n; j++) p.A[i + (size_t)n * j] *= D[i] * D[j]; p.b[i] *= D[i]; dmin = std::min(dmin, D[i]); }
		p.lmin_lb *= dmin * dmin; p.B.clear(); p.m = 0;
	} else if (r.coin(0.25)) {
		// every variable in a unit of its own: A = D A0 D, b = D b0 with D_i = 2^k, |k| up to 10..27 (factors up to 1e3..1e8). The scaling is exact in binary floating point,
		// the minimiser is x = D^-1 x0 and Cholesky factorisation and all sign tests are invariant under it - the problem is as well posed as (A0, b0), by which it is judged
		int e = r.range(10, 27); p.A0 = p.A; p.b0 = p.b; p.D.resize(n);
		for (auto &d : p.D) d = std::ldexp(1.0, r.range(-e, e));
		for (int i = 0; i < n; i++) { for (int j = 0; j < n; j++) p.A[i + (size_t)n * j] *= p.D[i] * p.D[j]; p.b[i] *= p.D[i]; }
		p.kind += "/units-per-variable2^" + std::to_string(e); p.B.clear(); p.m = 0;
	}
	return p;
}
static cholmod_sparse *to_sparse(const Prob &p, Rng *shuffle = nullptr) {
	cholmod_dense *Ad = cholmod_l_allocate_dense(p.n, p.n, p.n, CHOLMOD_REAL, &CC); memcpy(Ad->x, p.A.data(), sizeof(double) * p.n * p.n);
	cholmod_sparse *As = cholmod_l_dense_to_sparse(Ad, 1, &CC); cholmod_l_free_dense(&Ad, &CC);
	if (shuffle) { // the same matrix with the entries of every column stored in arbitrary row order (as cholmod_l_add(..., sorted = 0) leaves them, which is how the fitter assembles its matrix)
		long *Ap = (long *)As->p, *Ai = (long *)As->i; double *Ax = (double *)As->x;
		for (size_t j = 0; j < As->ncol; j++) for (long q = Ap[j + 1] - 1; q > Ap[j]; q--) { long w = Ap[j] + (long)shuffle->below((uint64_t)(q - Ap[j] + 1)); std::swap(Ai[q], Ai[w]); std::swap(Ax[q], Ax[w]); }
		As->sorted = 0;
	}
	return As;
}
static std::string prob_json(const Prob &p, const double *x) {
	std::string j = "{\"n\":" + std::to_string(p.n) + ",\"kind\":" + jstr(p.kind);
	if (p.n <= 12) { j += ",\"A_colmajor\":" + jarrd(p.A) + ",\"b\":" + jarrd(p.b); if (x) j += ",\"x\":" + jarrd(x, p.n); if (!p.D.empty()) j += ",\"units_D\":" + jarrd(p.D) + ",\"note\":\"the solver received D A D and D b; A, b and x are shown in the units of the unscaled problem\""; }
	return j + "}";
}

// A long banded system solved from a thread with a small stack (512 KiB is the default of secondary threads on several platforms and of many language runtimes that
// call into C): the solvers' working storage has to scale with the heap, not with the caller's stack. Judged through the KKT residual, band by band.
struct BigJob { int id; cholmod_sparse *A; cholmod_dense *b; cholmod_dense *x; double tol; };
static void *big_thread(void *v) {
	BigJob *j = (BigJob *)v;
	switch (j->id) {
	case 0: j->x = nnls_normal_block3(j->A, j->b, 0, &CC); break;
	case 1: j->x = nnls_normal_block(j->A, j->b, 0, &CC); break;
	case 2: j->x = nnls_normal_block_updown(j->A, j->b, 0, &CC); break;
	default: j->x = nnls_lawson_hanson(j->A, j->b, j->tol, 0, 0, 0, 1, 0, &CC); break;
	}
	return nullptr;
}
static void run_big(const Args &a, long cs, Rng &r) {
	bool th = a.tier == "thorough";
	int n = th ? r.range(60000, 120000) : r.range(30000, 50000), bw = r.range(1, 2);
	double dg = 2.0 * bw + 0.5 + r.U();
	std::vector<double> b(n); for (auto &v : b) v = r.U() - 0.45;
	count("long-banded-systems(small-stack thread)");
	struct S { const char *name; int id; double t_neg, tol_dual; };
	double bscale = 1; double kkt3 = (double)n * DBL_EPSILON * 1e5 * bscale;
	S solvers[] = {{"nnls_normal_block3", 0, 0.0, kkt3}, {"nnls_normal_block", 1, 1e-6, 1e-6}, {"nnls_normal_block_updown", 2, 1e-6, 1e-6}, {"nnls_lawson_hanson(normaleq)", 3, 0.0, 1e-10}};
	for (auto &sv : solvers) {
		if (sv.id == 3 && !(cs % 3 == 0)) continue; // (Lawson-Hanson frees one coefficient per iteration with a QR solve each: only on a short system)
		int nn = sv.id == 3 ? 70000 : n; // 16 bytes of index sets per column: 1.1 MB
		std::vector<double> bb(nn); for (int i = 0; i < nn; i++) bb[i] = sv.id == 3 ? (i % 9000 == 17 ? 1.0 : -0.5) : b[i % n];
		cholmod_triplet *T = cholmod_l_allocate_triplet(nn, nn, (size_t)nn * (2 * bw + 1), 0, CHOLMOD_REAL, &CC);
		long *Ti = (long *)T->i, *Tj = (long *)T->j; double *Tx = (double *)T->x; size_t nz = 0;
		for (int i = 0; i < nn; i++) for (int d = -bw; d <= bw; d++) { int j = i + d; if (j < 0 || j >= nn) continue; Ti[nz] = i; Tj[nz] = j; Tx[nz] = d == 0 ? dg : -1.0 / std::abs(d); nz++; }
		T->nnz = nz;
		cholmod_sparse *As = cholmod_l_triplet_to_sparse(T, nz, &CC); cholmod_l_free_triplet(&T, &CC);
		cholmod_dense *bd = cholmod_l_allocate_dense(nn, 1, nn, CHOLMOD_REAL, &CC); memcpy(bd->x, bb.data(), sizeof(double) * nn);
		BigJob job{sv.id, As, bd, nullptr, 1e-10};
		if (a.verbose) fprintf(stderr, "case %ld: long banded system n=%d bw=%d solver=%s\n", cs, nn, bw, sv.name);
		phase_log(std::string(sv.name) + " on a long banded system (n = 30000..120000) from a thread with a 512 KiB stack");
		g_in_solver = 1; g_solver_name = sv.name;
		pthread_attr_t at; pthread_attr_init(&at); pthread_attr_setstacksize(&at, 512 * 1024);
		pthread_t tid; if (pthread_create(&tid, &at, big_thread, &job) != 0) { g_in_solver = 0; note("pthread_create-with-small-stack-failed"); return; }
		pthread_join(tid, nullptr); pthread_attr_destroy(&at);
		g_in_solver = 0;
		count(std::string("solves:") + sv.name); count(std::string("small-stack-solves:") + sv.name);
		distinct(hash_mix(hash_mix(hash_d(77, dg), nn), sv.id));
		std::string pj = "{\"n\":" + std::to_string(nn) + ",\"kind\":\"long-banded(small-stack thread)\",\"bandwidth\":" + std::to_string(bw) + ",\"diagonal\":" + jnum(dg) + "}";
		if (!job.x) { viol(std::string("C11:") + sv.name + ":returned-NULL", pj); cholmod_l_free_sparse(&As, &CC); cholmod_l_free_dense(&bd, &CC); continue; }
		const double *xx = (const double *)job.x->x; bool finite = true; for (int i = 0; i < nn; i++) if (!std::isfinite(xx[i])) finite = false;
		if (!finite) viol(std::string("C11:") + sv.name + ":non-finite-result", pj);
		else {
			double offsum = 0; for (int d = 1; d <= bw; d++) offsum += 2.0 / d; double kappa = (dg + offsum) / (dg - offsum);
			double magmax = 0; std::vector<LD> g(nn), mg(nn);
			for (int i = 0; i < nn; i++) { LD gi = -(LD)bb[i], m = fabsl((LD)bb[i]); for (int d = -bw; d <= bw; d++) { int j = i + d; if (j < 0 || j >= nn) continue; LD aij = d == 0 ? dg : -1.0 / std::abs(d); gi += aij * xx[j]; m += fabsl(aij * xx[j]); } g[i] = gi; mg[i] = m; magmax = std::max(magmax, (double)m); }
			double worst = 0, negover = 0; int wi = -1; const char *wk = "";
			for (int i = 0; i < nn; i++) {
				double tau = sv.tol_dual + 64.0 * (2 * bw + 1) * DBL_EPSILON * (double)mg[i]; double v; const char *kd;
				if (xx[i] < -sv.t_neg) negover = std::max(negover, -xx[i] - sv.t_neg);
				if (xx[i] > sv.t_neg) { v = (double)fabsl(g[i]); kd = "gradient-nonzero-on-positive-component"; tau += 64.0 * (2 * bw + 1) * DBL_EPSILON * kappa * magmax; }
				else { v = g[i] < 0 ? (double)-g[i] : 0; kd = "gradient-negative-on-zero-component"; tau += 64.0 * (2 * bw + 1) * DBL_EPSILON * kappa * magmax; }
				if (v > tau && v / tau > worst) { worst = v / tau; wi = i; wk = kd; }
			}
			if (negover > 0) viol(std::string("C11:") + sv.name + ":negative-component", pj);
			if (wi >= 0) viol(std::string("C11:") + sv.name + ":KKT-violated:" + wk, "{\"component\":" + std::to_string(wi) + ",\"violation_over_tolerance\":" + jnum(worst) + ",\"problem\":" + pj + "}");
			else count("KKT-checks-passed");
		}
		cholmod_l_free_dense(&job.x, &CC); cholmod_l_free_dense(&bd, &CC); cholmod_l_free_sparse(&As, &CC);
	}
}

static void run_C11(const Args &a, long cs) {
	Rng r(a.seed, "C11", cs);
	if (cs % 160 == 157) { run_big(a, cs, r); return; }
	bool small = cs % 4 != 3;
	Prob p = gen(r, small);
	if (cs % 100 == 98) { // two fixed 4x4 systems (A = M'M + I/2) on which the principal-pivoting solvers need 13 single pivots - more than a budget of 3n allows
		static const double Ms[2][16] = {{-1.3288315093861109, 1.3847923793316785, -0.35612059410015168, -0.29090872530634931, -0.4015706419765811, 1.5116345363560295, 0.51452891607979734, -1.1780462862984491, 0.69830984607725854, 0.76970848869053088, 1.2836032292566275, -0.54893833058138275, 0.29332391634039739, 0.40704294877687608, 1.5476133410388666, 0.16953176582210308},
			{-1.0621670995057408, 1.6483722324941179, -0.35237986416433953, -0.29175697708817067, -0.16244847761581102, 1.0697490903966826, 0.45908672141101525, -1.2621103072991178, 0.69274428073910255, 0.66795576741125229, 0.97268661532210465, -0.94623115128429158, -0.031769614017927113, 0.49295305009603169, 1.5124623764946414, 0.27668767413668688}};
		static const double bs[2][4] = {{2.0193462246257563, 0.88952322612727219, 0.12059347410015461, 0.0087998704769647884}, {2.0980840068511126, 0.68184942124031933, 0.073604955476990461, 0.033942392738043503}};
		int w = (int)((cs / 100) % 2); p = Prob(); p.n = 4; p.A.assign(16, 0); p.b.assign(bs[w], bs[w] + 4); small = true;
		for (int i = 0; i < 4; i++) for (int j = 0; j < 4; j++) { double sv = 0; for (int k = 0; k < 4; k++) sv += Ms[w][k + i * 4] * Ms[w][k + j * 4]; p.A[i + 4 * j] = sv + (i == j ? 0.5 : 0.0); }
		for (int i = 0; i < 4; i++) for (int j = 0; j < i; j++) p.A[i + 4 * j] = p.A[j + 4 * i];
		p.kind = "many-pivots-4x4"; p.lmin_lb = 0.5; p.m = 0;
	}
	int n = p.n;
	if (a.verbose) fprintf(stderr, "case %ld: n=%d kind=%s\n", cs, n, p.kind.c_str());
	count("problems"); count(small ? "problems-enumerated(n<=12)" : "problems-large(KKT-only)"); count("kind:" + p.kind.substr(0, p.kind.find('/')));
	if (p.kind.find("degenerate") != std::string::npos) count("problems-degenerate"); if (p.kind.find("scaled") != std::string::npos) count("problems-badly-scaled");
	std::vector<LD> xo; bool have_oracle = false; double lmin = 0, anorm = 0;
	Prob J = p; bool units = !p.D.empty(); if (units) { J.A = p.A0; J.b = p.b0; count("problems-with-a-unit-per-variable"); } // the problem the answer is judged by
	if (small) {
		have_oracle = oracle(J, xo); lmin = lambda_min(J);
		for (int i = 0; i < n; i++) { double s = 0; for (int j = 0; j < n; j++) s += std::fabs(J.A[i + (size_t)n * j]); anorm = std::max(anorm, s); }
		if (!have_oracle) count("oracle-inconclusive"); else { count("oracle-solutions"); int nz = 0; for (LD v : xo) if (v > 0) nz++; count("oracle-support-size:" + std::to_string(nz)); }
	}
	if (small && !(lmin > 0 && anorm / lmin < 1e10)) { count("problems-skipped(condition>1e10)"); return; }
	uint64_t h = hash_mix(11, n); for (int i = 0; i < n && i < 40; i++) h = hash_d(h, p.b[i]); for (size_t i = 0; i < p.A.size() && i < 200; i++) h = hash_d(h, p.A[i]);
	struct S { const char *name; int id; double t_neg; double tol_dual; };
	// Lawson-Hanson takes its tolerance from the caller: a caller states it relative to the size of the data (1e-10 of the largest |b_i|); an absolute 1e-10 on data
	// scaled by 1e6 lies below the rounding noise eps*|A||x| of the gradient the solver tests, where no active-set method can terminate reliably
	double bscale = 0; for (int i = 0; i < n; i++) bscale = std::max(bscale, std::fabs(p.b[i])); if (!(bscale > 0)) bscale = 1;
	double kkt3 = (double)n * DBL_EPSILON * 1e5 * bscale, lhtol = 1e-10 * bscale; // (nnls_normal_block3 states its tolerance relative to max|b| as well)
	S solvers[] = {{"nnls_normal_block3", 0, 0.0, kkt3}, {"nnls_normal_block", 1, 1e-6, 1e-6}, {"nnls_normal_block_updown", 2, 1e-6, 1e-6}, {"nnls_lawson_hanson(normaleq)", 3, 0.0, lhtol}, {"nnls_lawson_hanson(ls)", 4, 0.0, lhtol}};
	for (auto &sv : solvers) {
		if (sv.id == 4 && (p.m == 0 || p.kind.find("banded") != std::string::npos || !small)) continue; // LS form only where A = B'B (+eps I folded into extra rows)
		if ((sv.id == 3 || sv.id == 4) && n > 60) continue;
		double kappaP = 0;
		if (units && sv.id == 3) {
			// Lawson-Hanson solves its sub-problems by rank-revealing QR, which is not invariant under a change of units (a column that is tiny next to the others counts as
			// zero): the conditioning its answer is tied to is that of the system as given. It is judged on these problems only where that is moderate.
			if (!small) continue;
			double lmP = lambda_min(p), anP = 0; for (int i = 0; i < n; i++) { double s2 = 0; for (int j = 0; j < n; j++) s2 += std::fabs(p.A[i + (size_t)n * j]); anP = std::max(anP, s2); }
			if (!(lmP > 0 && anP / lmP < 1e10)) { count("lawson-hanson-not-judged(unit-per-variable system with norm-wise condition > 1e10)"); continue; }
			kappaP = anP / lmP; count("lawson-hanson-judged-on-unit-per-variable-system");
		}
		cholmod_sparse *As; cholmod_dense *bd; std::vector<double> Af = p.A, bf = p.b; int ncol = n;
		Prob q = J;
		if (sv.id == 4) {
			// least-squares form: rows of B plus sqrt(eps) I rows reproduce A exactly only up to rounding; rebuild A,b from the LS data for judging
			double eps = 0; { double s = 0; for (int k = 0; k < p.m; k++) s += p.B[k] * p.B[k]; eps = p.A[0] - s; if (eps < 0) eps = 0; }
			int m2 = p.m + n; std::vector<double> Bm((size_t)m2 * n, 0), y(m2, 0);
			for (int j = 0; j < n; j++) { for (int k = 0; k < p.m; k++) Bm[k + (size_t)m2 * j] = p.B[k + (size_t)p.m * j]; Bm[p.m + j + (size_t)m2 * j] = std::sqrt(eps); }
			for (int k = 0; k < p.m; k++) y[k] = r.U() - 0.4;
			q.A.assign((size_t)n * n, 0); q.b.assign(n, 0);
			for (int i = 0; i < n; i++) { for (int j = 0; j < n; j++) { double s = 0; for (int k = 0; k < m2; k++) s += Bm[k + (size_t)m2 * i] * Bm[k + (size_t)m2 * j]; q.A[i + (size_t)n * j] = s; } double s = 0; for (int k = 0; k < m2; k++) s += Bm[k + (size_t)m2 * i] * y[k]; q.b[i] = s; }
			cholmod_dense *Bd = cholmod_l_allocate_dense(m2, n, m2, CHOLMOD_REAL, &CC); memcpy(Bd->x, Bm.data(), sizeof(double) * m2 * n);
			As = cholmod_l_dense_to_sparse(Bd, 1, &CC); cholmod_l_free_dense(&Bd, &CC);
			bd = cholmod_l_allocate_dense(m2, 1, m2, CHOLMOD_REAL, &CC); memcpy(bd->x, y.data(), sizeof(double) * m2);
		} else { bool unsorted = r.coin(0.4); if (unsorted) count("systems-with-unsorted-columns"); As = to_sparse(p, unsorted ? &r : nullptr); bd = cholmod_l_allocate_dense(n, 1, n, CHOLMOD_REAL, &CC); memcpy(bd->x, p.b.data(), sizeof(double) * n); }
		(void)ncol;
		phase_log(sv.name);
		g_in_solver = 1; g_solver_name = sv.name;
		cholmod_dense *x = nullptr;
		switch (sv.id) {
		case 0: x = nnls_normal_block3(As, bd, getenv("VF_NNLS_VERBOSE") ? 1 : 0, &CC); break;
		case 1: x = nnls_normal_block(As, bd, 0, &CC); break;
		case 2: x = nnls_normal_block_updown(As, bd, 0, &CC); break;
		case 3: x = nnls_lawson_hanson(As, bd, lhtol, 0, 0, 0, 1, getenv("VF_NNLS_VERBOSE") ? 1 : 0, &CC); break;
		default: x = nnls_lawson_hanson(As, bd, lhtol, 0, 0, 0, 0, 0, &CC); break;
		}
		g_in_solver = 0;
		count(std::string("solves:") + sv.name);
		distinct(hash_mix(h, sv.id));
		if (!x) { viol(std::string("C11:") + sv.name + ":returned-NULL", prob_json(q, nullptr)); cholmod_l_free_sparse(&As, &CC); cholmod_l_free_dense(&bd, &CC); continue; }
		std::vector<double> xj((const double *)x->x, (const double *)x->x + n), tneg(n, sv.t_neg), told(n, sv.tol_dual);
		if (units) for (int i = 0; i < n; i++) { xj[i] *= p.D[i]; tneg[i] *= p.D[i]; told[i] /= p.D[i]; } // back to the units of (A0, b0); the solver's stated tolerances (on x_i and on the gradient component i) converted with it
		const double *xx = xj.data();
		std::vector<LD> xo2 = xo; bool have2 = have_oracle; double lmin2 = lmin, anorm2 = anorm;
		if (sv.id == 4 && small) { have2 = oracle(q, xo2); lmin2 = lambda_min(q); anorm2 = 0; for (int i = 0; i < n; i++) { double s = 0; for (int j = 0; j < n; j++) s += std::fabs(q.A[i + (size_t)n * j]); anorm2 = std::max(anorm2, s); } }
		// conditioning: exact lambda_min for enumerated problems, the generator's lower bound otherwise
		double an = 0; for (int i = 0; i < n; i++) { double s2 = 0; for (int j = 0; j < n; j++) s2 += std::fabs(q.A[i + (size_t)n * j]); an = std::max(an, s2); }
		double lm = (small && lmin2 > 0) ? lmin2 : p.lmin_lb; double kappa = lm > 0 ? std::max(1.0, an / lm) : 1e300; kappa = std::max(kappa, kappaP);
		double magmax = 0; for (int i = 0; i < n; i++) { double mag = std::fabs(q.b[i]); for (int j = 0; j < n; j++) mag += std::fabs(q.A[i + (size_t)n * j] * xx[j]); if (std::isfinite(mag)) magmax = std::max(magmax, mag); }
		bool finite = true; double neg = 0, negover = 0, worst = 0, worst_tau = 0; int worst_i = -1; const char *worst_kind = "";
		for (int i = 0; i < n; i++) if (!std::isfinite(xx[i])) finite = false;
		if (!finite) { viol(std::string("C11:") + sv.name + ":non-finite-result", prob_json(q, xx)); }
		else {
			for (int i = 0; i < n; i++) {
				LD g = -(LD)q.b[i], mag = fabsl((LD)q.b[i]);
				for (int j = 0; j < n; j++) { g += (LD)q.A[i + (size_t)n * j] * xx[j]; mag += fabsl((LD)q.A[i + (size_t)n * j] * xx[j]); }
				// on the positive set the gradient is the residual of a backward-stable solve; on the zero set it inherits the forward error (kappa*eps) of x
				double tau = told[i] + 64.0 * n * DBL_EPSILON * (double)mag;
				if (xx[i] < neg) neg = xx[i];
				if (xx[i] < -tneg[i]) negover = std::max(negover, -xx[i] - tneg[i]);
				double v; const char *kd;
				if (xx[i] > tneg[i]) { v = (double)fabsl(g); kd = "gradient-nonzero-on-positive-component"; }
				else { v = g < 0 ? (double)-g : 0; kd = "gradient-negative-on-zero-component"; tau += 64.0 * n * DBL_EPSILON * kappa * magmax; }
				if (v > tau && v / tau > worst) { worst = v / tau; worst_i = i; worst_kind = kd; worst_tau = tau; }
			}
			if (negover > 0) viol(std::string("C11:") + sv.name + ":negative-component", "{\"min_x\":" + jnum(neg) + ",\"allowed\":" + jnum(-sv.t_neg) + ",\"problem\":" + prob_json(q, xx) + "}");
			if (worst_i >= 0) viol(std::string("C11:") + sv.name + ":KKT-violated:" + worst_kind, "{\"component\":" + std::to_string(worst_i) + ",\"violation_over_tolerance\":" + jnum(worst) + ",\"tolerance\":" + jnum(worst_tau) + ",\"problem\":" + prob_json(q, xx) + "}");
			else count("KKT-checks-passed");
			if (have2 && lmin2 > 0) {
				LD d2 = 0; for (int i = 0; i < n; i++) d2 += ((LD)xx[i] - xo2[i]) * ((LD)xx[i] - xo2[i]);
				LD scale = 0; for (int i = 0; i < n; i++) { LD mag = fabsl((LD)q.b[i]); for (int j = 0; j < n; j++) mag += fabsl((LD)q.A[i + (size_t)n * j] * xo2[j]); scale = std::max(scale, mag); }
				double tdmax = 0, tnmax = 0; for (int i = 0; i < n; i++) { tdmax = std::max(tdmax, told[i]); tnmax = std::max(tnmax, tneg[i]); }
				double bound = 4 * std::sqrt((double)n) * (tdmax + 64.0 * n * DBL_EPSILON * (double)scale + anorm2 * tnmax) / lmin2;
				count("oracle-distance-checks");
				if (!(sqrtl(d2) <= bound) && worst_i < 0 && !(negover > 0)) viol(std::string("C11:") + sv.name + ":differs-from-enumerated-optimum", "{\"distance\":" + jnum((double)sqrtl(d2)) + ",\"bound\":" + jnum(bound) + ",\"lambda_min\":" + jnum(lmin2) + ",\"problem\":" + prob_json(q, xx) + "}");
			}
		}
		cholmod_l_free_dense(&x, &CC); cholmod_l_free_dense(&bd, &CC); cholmod_l_free_sparse(&As, &CC);
	}
	if (cs % 50 == 0) sample("{\"n\":" + std::to_string(p.n) + ",\"kind\":" + jstr(p.kind) + ",\"b_head\":" + jarrd(std::vector<double>(p.b.begin(), p.b.begin() + std::min(p.n, 6))) + "}");
}

int main(int argc, char **argv) {
	Args a = parse_args(argc, argv);
	open_out(a.outpath);
	cholmod_l_start(&CC);
	atexit(on_exit_handler);
	for (long cs = a.from; cs < a.to; cs++) { begin_case(cs); run_C11(a, cs); }
	g_in_solver = 0;
	finish();
	fflush(stdout);
	_exit(0);
}
