// h_sched.cpp - C12 part 1: the real walk_descents() under a controlled scheduler (see sched/vf_sched.c).
// Systematic bounded exploration (preemption bound + free choices at blocking points) and random / PCT schedules;
// every schedule must terminate (deadlock is decided, not timed out) with outputs bit-identical to the single-worker run.
#include "vf.h"
#include <cholmod.h>
#include <sys/wait.h>
#include <deque>
extern "C" {
#include "cholesky_solve.h"
#include "sched/vf_sched.h"
}

using namespace vf;

cholmod_common verif_cholmod_common;

struct Cfg { int threads, nneg, nF; };
static const Cfg CFGS[] = {{1, 0, 5}, {1, 1, 5}, {1, 2, 6}, {2, 0, 5}, {2, 1, 6}, {2, 2, 6}, {2, 3, 7}, {3, 1, 6}, {3, 2, 6}, {3, 4, 8}, {3, 5, 9}, {4, 0, 5}, {5, 1, 6}, {2, 4, 8}, {1, 3, 6}, {3, 3, 7}};
static const int NCFG = sizeof(CFGS) / sizeof(CFGS[0]);

struct Outputs { int ret; long nH1; double residual; double x[16]; long H1[16]; int nF; };
static int g_pipe = -1;
static Outputs g_out;

struct Msg { vs_result r; Outputs o; };
extern "C" void vs_abort_run(const vs_result *r) {
	Msg *m = (Msg *)calloc(1, sizeof(Msg)); m->r = *r;
	if (g_pipe >= 0) { ssize_t w = write(g_pipe, m, sizeof(Msg)); (void)w; }
}
static void run_problem(const Cfg &c, uint64_t pseed, Outputs &o) {
	cholmod_common *cc = &verif_cholmod_common; cholmod_l_start(cc);
	Rng r(pseed, "C12problem", (uint64_t)c.nF * 100 + c.nneg);
	int nF = c.nF;
	cholmod_dense *B = cholmod_l_allocate_dense(nF + 2, nF, nF + 2, CHOLMOD_REAL, cc);
	for (int i = 0; i < (nF + 2) * nF; i++) ((double *)B->x)[i] = r.U() - 0.4;
	cholmod_sparse *Bs = cholmod_l_dense_to_sparse(B, 1, cc), *Bt = cholmod_l_transpose(Bs, 1, cc);
	cholmod_sparse *A = cholmod_l_ssmult(Bt, Bs, 0, 1, 1, cc);
	cholmod_dense *b = cholmod_l_allocate_dense(nF, 1, nF, CHOLMOD_REAL, cc); for (int i = 0; i < nF; i++) ((double *)b->x)[i] = r.U();
	cholmod_dense *x = cholmod_l_allocate_dense(nF, 1, nF, CHOLMOD_REAL, cc), *xF = cholmod_l_allocate_dense(nF, 1, nF, CHOLMOD_REAL, cc);
	long F[16]; for (int i = 0; i < nF; i++) { F[i] = i; ((double *)x->x)[i] = 0.2 + r.U(); ((double *)xF->x)[i] = i < c.nneg ? -0.1 - r.U() : 0.3 + r.U(); }
	long nFl = nF; long H1[32]; long nH1 = 0; int rc = 0; double res = 1e300;
	int ret = walk_descents(A, b, x, xF, F, &nFl, H1, &nH1, &res, &rc, 0, cc);
	memset(&o, 0, sizeof o); o.ret = ret; o.nH1 = nH1; o.residual = res; o.nF = nF;
	memcpy(o.x, x->x, nF * sizeof(double)); for (long i = 0; i < nH1 && i < 16; i++) o.H1[i] = H1[i];
}
// one schedule in a forked child; returns false if the child died without reporting
static bool run_schedule(const Cfg &c, uint64_t pseed, int threads, const std::vector<unsigned char> &prefix, int mode, uint64_t sseed, int pct_depth, int spurious, Msg &m, int &childsig) {
	int fd[2]; if (pipe(fd)) return false;
	fflush(stdout); fflush(stderr);
	pid_t p = fork();
	if (p == 0) {
		close(fd[0]); g_pipe = fd[1]; alarm(60);
		signal(SIGSEGV, SIG_DFL); signal(SIGABRT, SIG_DFL); signal(SIGBUS, SIG_DFL); signal(SIGFPE, SIG_DFL); signal(SIGILL, SIG_DFL);
		char buf[16]; snprintf(buf, 16, "%d", threads); setenv("OMP_NUM_THREADS", buf, 1); unsetenv("GOTO_NUM_THREADS");
		vs_reset(); if (mode != VS_MODE_DEFAULT) vs_set_mode(mode, sseed, pct_depth, spurious); if (!prefix.empty()) vs_set_prefix(prefix.data(), (int)prefix.size());
		Msg *mm = (Msg *)calloc(1, sizeof(Msg));
		run_problem(c, pseed, mm->o);
		mm->r = *vs_get_result();
		ssize_t w = write(fd[1], mm, sizeof(Msg)); (void)w;
		_exit(0);
	}
	close(fd[1]);
	size_t got = 0; char *dst = (char *)&m; memset(&m, 0, sizeof m);
	while (got < sizeof(Msg)) { ssize_t n = read(fd[0], dst + got, sizeof(Msg) - got); if (n <= 0) break; got += (size_t)n; }
	close(fd[0]);
	int st = 0; waitpid(p, &st, 0); childsig = WIFSIGNALED(st) ? WTERMSIG(st) : 0;
	return got == sizeof(Msg);
}
static uint64_t sched_hash(const vs_result &r) { uint64_t h = 17; for (int i = 0; i < r.ntrace; i++) h = hash_mix(h, r.choice[i]); return h; }
static std::string sched_str(const vs_result &r, int maxn = 400) { std::string s; for (int i = 0; i < r.ntrace && i < maxn; i++) s += (char)('0' + r.choice[i]); return s; }
static bool same_out(const Outputs &a, const Outputs &b) { return a.ret == b.ret && a.nH1 == b.nH1 && memcmp(&a.residual, &b.residual, 8) == 0 && a.nF == b.nF && memcmp(a.x, b.x, a.nF * 8) == 0 && memcmp(a.H1, b.H1, 16 * sizeof(long)) == 0; }

static std::set<uint64_t> g_seen;
// judge one executed schedule; returns false if exploration from it should stop
static bool judge(const Cfg &c, uint64_t pseed, const Outputs &ref, bool got, int childsig, const Msg &m, const char *strategy) {
	count("schedules-run"); count(std::string("schedules:") + strategy);
	std::string cj = "{\"workers\":" + std::to_string(c.threads) + ",\"n_alpha\":" + std::to_string(2 + c.nneg) + ",\"nF\":" + std::to_string(c.nF) + ",\"problem_seed\":" + std::to_string(pseed) + ",\"strategy\":" + jstr(strategy);
	if (!got) { viol(std::string("C12:walk_descents:child-died:signal-") + std::to_string(childsig), cj + "}"); return false; }
	const vs_result &r = m.r;
	uint64_t h = hash_mix(sched_hash(r), (uint64_t)c.threads * 1000 + c.nneg * 10 + pseed * 100000); if (g_seen.insert(h).second) { distinct(h); count("distinct-schedules"); }
	count("decisions", r.ntrace); if (r.preemptions > out().counters["max-preemptions-in-a-schedule"]) out().counters["max-preemptions-in-a-schedule"] = r.preemptions;
	if (r.spurious) count("schedules-with-spurious-wakeups");
	std::string sj = cj + ",\"decisions\":" + std::to_string(r.ntrace) + ",\"preemptions\":" + std::to_string(r.preemptions) + ",\"schedule\":" + jstr(sched_str(r)) + ",\"detail\":" + jstr(r.detail) + "}";
	if (r.status == VS_DEADLOCK) { count("deadlocks"); viol("C12:deadlock:walk_descents", sj); return false; }
	if (r.status == VS_PROTOCOL) { viol(std::string("C12:protocol-error:") + std::string(r.detail).substr(0, std::string(r.detail).find(';')), sj); return false; }
	if (r.status == VS_LIVELOCK) { viol("C12:livelock:walk_descents", sj); return false; }
	if (r.status == VS_DIVERGED) { note("replay-diverged"); return false; }
	if (!same_out(m.o, ref)) { viol("C12:walk_descents:result-differs-from-single-worker-run", sj.substr(0, sj.size() - 1) + ",\"ret\":" + std::to_string(m.o.ret) + ",\"ref_ret\":" + std::to_string(ref.ret) + ",\"residual\":" + jnum(m.o.residual) + ",\"ref_residual\":" + jnum(ref.residual) + ",\"nH1\":" + std::to_string(m.o.nH1) + ",\"ref_nH1\":" + std::to_string(ref.nH1) + "}"); return true; }
	count("schedules-identical-to-reference");
	return true;
}

static void run_C12(const Args &a, long cs) {
	bool th = a.tier == "thorough";
	int NP = th ? 6 : 2, NSH = th ? 12 : 4; // problems per configuration, shards per (configuration, problem)
	const Cfg &c = CFGS[cs % NCFG]; uint64_t pseed = (uint64_t)((cs / NCFG) % NP) + 1 + a.seed * 1000; int shard = (int)(cs / (NCFG * NP));
	if (shard >= NSH) return;
	g_seen.clear();
	// reference: a single worker under the default schedule
	Msg m; int sig = 0; Cfg c1 = c;
	phase_log("reference run (1 worker)");
	bool got = run_schedule(c1, pseed, 1, {}, VS_MODE_DEFAULT, 0, 0, 0, m, sig);
	if (!got || m.r.status != VS_OK) { judge(c, pseed, m.o, got, sig, m, "reference"); return; }
	Outputs ref = m.o;
	if (shard == 0) { count("configurations"); count("config:workers=" + std::to_string(c.threads) + ",n_alpha=" + std::to_string(2 + c.nneg)); }
	if (shard == 0) {
		// ---- systematic: all schedules with <= P preemptions and <= F deviations at blocking points (breadth first)
		int P = th ? 2 : 1, Fb = th ? 3 : 2; size_t cap = th ? 6000 : 700;
		struct Node { std::vector<unsigned char> prefix; int pre, fre; };
		std::deque<Node> q; q.push_back({{}, 0, 0}); size_t runs = 0; bool capped = false;
		phase_log("systematic exploration");
		while (!q.empty()) {
			if (runs >= cap) { capped = true; break; }
			Node nd = q.front(); q.pop_front();
			got = run_schedule(c, pseed, c.threads, nd.prefix, VS_MODE_DEFAULT, 0, 0, 0, m, sig); runs++;
			if (!judge(c, pseed, ref, got, sig, m, "systematic")) continue;
			const vs_result &r = m.r;
			for (int k = (int)nd.prefix.size(); k < r.ntrace; k++) {
				for (int t = 0; t < 8; t++) {
					if (!(r.enabled[k] >> t & 1) || t == r.choice[k]) continue;
					int pre = nd.pre + (r.self_enabled[k] ? 1 : 0), fre = nd.fre + (r.self_enabled[k] ? 0 : 1);
					if (pre > P || fre > Fb) continue;
					Node ch; ch.prefix.assign(r.choice, r.choice + k); ch.prefix.push_back((unsigned char)t); ch.pre = pre; ch.fre = fre; q.push_back(ch);
				}
			}
		}
		count(capped ? "systematic-explorations-capped" : "systematic-explorations-complete");
		sample("{\"workers\":" + std::to_string(c.threads) + ",\"n_alpha\":" + std::to_string(2 + c.nneg) + ",\"systematic_schedules\":" + std::to_string(runs) + ",\"preemption_bound\":" + std::to_string(P) + ",\"complete\":" + (capped ? "false" : "true") + ",\"example_schedule\":" + jstr(sched_str(m.r, 120)) + "}");
	} else {
		// ---- random walks and PCT-style priority schedules, with occasional spurious wake-ups
		int nruns = th ? 400 : 120;
		phase_log("random exploration");
		for (int i = 0; i < nruns; i++) {
			uint64_t ss = a.seed * 1000003ULL + (uint64_t)cs * 7919 + i;
			int mode = i % 3 == 0 ? VS_MODE_PCT : VS_MODE_RANDOM; int depth = 1 + i % 3; int spur = i % 4 == 0 ? 30 : 0;
			got = run_schedule(c, pseed, c.threads, {}, mode, ss, depth, spur, m, sig);
			judge(c, pseed, ref, got, sig, m, mode == VS_MODE_PCT ? "pct" : "random");
		}
	}
}

int main(int argc, char **argv) {
	Args a = parse_args(argc, argv);
	open_out(a.outpath);
	signal(SIGPIPE, SIG_IGN);
	for (long cs = a.from; cs < a.to; cs++) { begin_case(cs); run_C12(a, cs); }
	finish();
	fflush(stdout);
	_exit(0);
}
