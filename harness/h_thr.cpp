// h_thr.cpp - C12 part 2/3: real threads with seeded delays, for the ThreadSanitizer build and for helgrind.
// Monotonic NNLS problems and direct line searches are repeated with 1..32 workers; the results must be bit-identical
// across worker counts; race reports are collected from the tool's output by the driver.
#include "vf.h"
#include <cholmod.h>
#include <photospline/detail/splineutil.h>
#include <photospline/splinetable.h>
extern "C" int photospline_verif_modify_factor_threads; /* hook (PHOTOSPLINE_VERIF): worker count assumed by modify_factor's cost model; 0 = the real one */
extern "C" {
#include "cholesky_solve.h"
}
#define VF_DELAY_IMPL
#include "sched/vf_delay_shim.h"
unsigned long long vf_delay_seed = 1; volatile long vf_delay_sync_calls = 0; int vf_delay_permille = 300;

using namespace vf;
cholmod_common verif_cholmod_common; // global on purpose: helgrind names the object in "inside data symbol"

static void set_workers(int n) { char b[16]; snprintf(b, 16, "%d", n); setenv("OMP_NUM_THREADS", b, 1); unsetenv("GOTO_NUM_THREADS"); }

static void run(const Args &a, long cs) {
	Rng r(a.seed, "C12thr", cs);
	cholmod_common *cc = &verif_cholmod_common;
	bool direct = cs % 2 == 0;
	int workers[] = {1, 2, 3, 8, 32, 5};
	int nw = a.extra.count("maxworkers") ? 3 : 6;
	std::vector<double> ref; int refret = 0; bool have = false;
	int n = direct ? r.range(6, 30) : r.range(12, 60); int nneg = direct ? (int)r.below(std::min(n, 10)) : 0;
	// problem data (fixed across worker counts)
	int m = n + 2 + (int)r.below(4); std::vector<double> B((size_t)m * n), b(n), x0(n), xF(n);
	for (auto &v : B) v = r.coin(direct ? 1.0 : 0.5) ? r.U() - 0.4 : 0; for (auto &v : b) v = r.U() - (direct ? 0.0 : 0.45);
	for (int i = 0; i < n; i++) { x0[i] = 0.2 + r.U(); xF[i] = i < nneg ? -0.1 - r.U() : 0.3 + r.U(); }
	count("problems"); count(direct ? "problems:direct-line-search" : "problems:nnls_normal_block3");
	long sync0 = vf_delay_sync_calls;
	for (int wi = 0; wi < nw; wi++) {
		set_workers(workers[wi]); vf_delay_seed = a.seed * 7919 + (uint64_t)cs * 31 + wi;
		cholmod_dense *Bd = cholmod_l_allocate_dense(m, n, m, CHOLMOD_REAL, cc); memcpy(Bd->x, B.data(), sizeof(double) * m * n);
		cholmod_sparse *Bs = cholmod_l_dense_to_sparse(Bd, 1, cc), *Bt = cholmod_l_transpose(Bs, 1, cc);
		cholmod_sparse *A = cholmod_l_ssmult(Bt, Bs, 0, 1, 1, cc);
		{ // A += 1e-3 I keeps it positive definite
			cholmod_sparse *I = cholmod_l_speye(n, n, CHOLMOD_REAL, cc); double one[2] = {1, 0}, eps[2] = {1e-3, 0}; cholmod_sparse *A2 = cholmod_l_add(A, I, one, eps, 1, 1, cc); cholmod_l_free_sparse(&A, cc); cholmod_l_free_sparse(&I, cc); A = A2;
		}
		cholmod_dense *bd = cholmod_l_allocate_dense(n, 1, n, CHOLMOD_REAL, cc); memcpy(bd->x, b.data(), sizeof(double) * n);
		std::vector<double> res; int ret = 0;
		phase_log(std::string(direct ? "walk_descents" : "nnls_normal_block3") + " workers=" + std::to_string(workers[wi]));
		if (direct) {
			cholmod_dense *x = cholmod_l_allocate_dense(n, 1, n, CHOLMOD_REAL, cc), *xf = cholmod_l_allocate_dense(n, 1, n, CHOLMOD_REAL, cc);
			memcpy(x->x, x0.data(), 8 * n); memcpy(xf->x, xF.data(), 8 * n);
			std::vector<long> F(n), H1(n + 2); for (int i = 0; i < n; i++) F[i] = i; long nF = n, nH1 = 0; int rc = 0; double rs = 1e300;
			ret = walk_descents(A, bd, x, xf, F.data(), &nF, H1.data(), &nH1, &rs, &rc, 0, cc);
			res.assign((double *)x->x, (double *)x->x + n); res.push_back(rs); res.push_back((double)nH1); for (long i = 0; i < nH1; i++) res.push_back((double)H1[i]);
			cholmod_l_free_dense(&x, cc); cholmod_l_free_dense(&xf, cc);
		} else {
			cholmod_dense *x = nnls_normal_block3(A, bd, 0, cc);
			if (!x) { viol("C12:nnls_normal_block3:returned-NULL", "{}"); } else { res.assign((double *)x->x, (double *)x->x + n); cholmod_l_free_dense(&x, cc); }
		}
		count("runs"); count("runs:workers=" + std::to_string(workers[wi]));
		if (!have) { ref = res; refret = ret; have = true; }
		else {
			// what the fit hands to its caller are float coefficients: that is the level at which the property speaks. Last-bit differences of the
			// double-precision NNLS vector (modify_factor chooses update vs. refactorisation from the worker count) are recorded, not judged.
			bool same = ret == refret && res.size() == ref.size();
			bool same_dbl = same && (res.empty() || memcmp(res.data(), ref.data(), 8 * res.size()) == 0);
			if (same) for (size_t i = 0; i < res.size(); i++) { float fa = (float)res[i], fb = (float)ref[i]; if (memcmp(&fa, &fb, 4) != 0) same = false; }
			if (direct && !same_dbl) same = false; // the line search itself performs the same arithmetic for every worker count: bitwise there
			count("worker-count-comparisons");
			if (same && !same_dbl) note("double-precision-NNLS-vector-differs-in-last-bits-across-worker-counts(float-coefficients-identical)");
			if (!same) viol(std::string("C12:") + (direct ? "walk_descents" : "nnls_normal_block3") + ":result-depends-on-worker-count", "{\"workers\":" + std::to_string(workers[wi]) + ",\"n\":" + std::to_string(n) + ",\"result\":" + jarrd(res).substr(0, 600) + ",\"reference(1 worker)\":" + jarrd(ref).substr(0, 600) + "}");
		}
		cholmod_l_free_dense(&bd, cc); cholmod_l_free_dense(&Bd, cc); cholmod_l_free_sparse(&Bs, cc); cholmod_l_free_sparse(&Bt, cc); cholmod_l_free_sparse(&A, cc);
	}
	if (vf_delay_sync_calls > sync0) { count("problems-that-reached-the-parallel-line-search"); distinct(hash_mix(hash_mix(12, cs), (uint64_t)n)); }
	count("synchronisation-calls-observed", vf_delay_sync_calls - sync0);
	if (cs % 10 == 0) sample("{\"kind\":" + jstr(direct ? "direct walk_descents" : "nnls_normal_block3") + ",\"n\":" + std::to_string(n) + ",\"n_alpha\":" + std::to_string(direct ? 2 + nneg : -1) + ",\"sync_calls\":" + std::to_string(vf_delay_sync_calls - sync0) + "}");
}

// ---- worker counts 1..32 on real fits: the same monotonic fit through splinetable::fit for every worker count; the float coefficients must be the same.
// BLAS and OpenMP are pinned to one thread by the driver (environment at process start); only the library's own worker count (GOTO_NUM_THREADS, re-read on every
// call) varies. A difference is attributed by intervention: the fit is repeated with modify_factor's cost model told "one worker" (hook); if that alone restores the
// single-worker coefficients the worker pool itself is not the cause and the key says so.
static std::vector<float> fit_once(int nk0, int ns0, int shape, double smooth, uint64_t seed, int workers, bool &ok) {
	char wb[16]; snprintf(wb, 16, "%d", workers); setenv("GOTO_NUM_THREADS", wb, 1);
	const int dim = 2; std::vector<uint32_t> orders(dim, 2); std::vector<std::vector<double>> knots(dim), coords(dim);
	for (int d = 0; d < dim; d++) { int nn = d == 0 ? nk0 : 12; for (int j = 0; j < nn; j++) knots[d].push_back(-0.3 + 1.6 * j / (nn - 1)); int m = d == 0 ? ns0 : 20; for (int j = 0; j < m; j++) coords[d].push_back((j + 0.5) / m); }
	Rng q(seed, "C12fit-data", 0);
	// (three fixed problems use the noise sequence under which the dependence was first demonstrated: xorshift64, /tmp/hunt/out/C12/D1)
	bool golden = seed < 16; unsigned long long xs = 88172645463325252ULL ^ (seed * 0x9E3779B97F4A7C15ULL);
	auto noise = [&]() -> double { if (!golden) return q.U(); xs ^= xs << 13; xs ^= xs >> 7; xs ^= xs << 17; return (xs >> 11) * (1.0 / 9007199254740992.0); };
	size_t total = coords[0].size() * coords[1].size(); photospline::ndsparse data(total, dim); std::vector<double> w(total, 1.0); std::vector<unsigned> idx(dim, 0);
	for (size_t i = 0; i < total; i++) {
		idx[1] = i % coords[1].size(); idx[0] = i / coords[1].size(); double x = coords[0][idx[0]], y = coords[1][idx[1]];
		double v = shape == 0 ? 1.0 / (1 + std::exp(-(x - 0.5) * 20)) : std::sin(x * 12) + x * 2; v *= (1 + y); v += (noise() - 0.5) * 0.2;
		data.insertEntry(v, &idx[0]);
	}
	photospline::splinetable<> sp; std::vector<double> pen(dim, smooth); std::vector<uint32_t> po(dim, 2);
	ok = true;
	try { sp.fit(data, w, coords, orders, knots, pen, po, 0, false); } catch (std::exception &e) { ok = false; return {}; }
	size_t nc = (size_t)sp.get_ncoeffs(0) * sp.get_ncoeffs(1);
	return std::vector<float>(sp.get_coefficients(), sp.get_coefficients() + nc);
}
static void run_fit(const Args &a, long cs) {
	Rng r(a.seed, "C12fit", cs);
	int nk0 = r.range(40, 100), ns0 = r.range(40, 200), shape = (int)r.below(2); double smooth = std::pow(10.0, -(double)r.range(6, 13)); uint64_t dseed = cs % 2 ? a.seed * 1000003 + (uint64_t)cs : 1 + (a.seed * 7 + (uint64_t)cs) % 15; /* (seeds below 16 select the xorshift noise sequence) */
	if (cs % 12 < 3) { static const int gk[3][3] = {{100, 200, 0}, {100, 60, 1}, {100, 40, 1}}; static const double gs[3] = {1e-8, 1e-11, 1e-13}; static const uint64_t gd[3] = {3, 3, 2};
		int g = (int)(cs % 12); nk0 = gk[g][0]; ns0 = gk[g][1]; shape = gk[g][2]; smooth = gs[g]; dseed = gd[g]; count("real-fits:fixed-problems"); }
	int workers[] = {1, 2, 3, 5, 8, 32};
	std::string pj = "{\"knots\":[" + std::to_string(nk0) + ",12],\"samples\":[" + std::to_string(ns0) + ",20],\"shape\":" + std::to_string(shape) + ",\"smoothing\":" + jnum(smooth) + ",\"data_seed\":" + std::to_string(dseed) + "}";
	count("real-fits:problems"); long sync0 = vf_delay_sync_calls;
	std::vector<float> ref; bool okref = true;
	for (int wi = 0; wi < 6; wi++) {
		photospline_verif_modify_factor_threads = 0;
		phase_log("splinetable::fit(monodim) workers=" + std::to_string(workers[wi]));
		bool ok; std::vector<float> c = fit_once(nk0, ns0, shape, smooth, dseed, workers[wi], ok);
		count("real-fits:runs"); count("real-fits:runs:workers=" + std::to_string(workers[wi]));
		if (wi == 0) { ref = c; okref = ok; if (ok) distinct(hash_mix(hash_mix(1212, cs), (uint64_t)nk0)); continue; }
		if (ok != okref) { viol("C12:fit(monodim):fails-for-some-worker-counts-only", "{\"workers\":" + std::to_string(workers[wi]) + ",\"problem\":" + pj + "}"); continue; }
		if (!ok) continue;
		count("real-fits:worker-count-comparisons");
		size_t nd = 0; double md = 0; for (size_t i = 0; i < c.size() && i < ref.size(); i++) if (memcmp(&c[i], &ref[i], 4) != 0) { nd++; md = std::max(md, (double)std::fabs(c[i] - ref[i])); }
		if (c.size() != ref.size()) nd = c.size() + 1;
		if (nd == 0) continue;
		// attribute: same worker pool, cost model of modify_factor told "one worker"
		photospline_verif_modify_factor_threads = 1;
		phase_log("splinetable::fit(monodim) workers=" + std::to_string(workers[wi]) + " with modify_factor's cost model fixed to one worker");
		bool ok2; std::vector<float> c2 = fit_once(nk0, ns0, shape, smooth, dseed, workers[wi], ok2);
		photospline_verif_modify_factor_threads = 0;
		bool restored = ok2 && c2.size() == ref.size() && memcmp(c2.data(), ref.data(), 4 * ref.size()) == 0;
		std::string dj = "{\"workers\":" + std::to_string(workers[wi]) + ",\"coefficients_differing\":" + std::to_string(nd) + ",\"of\":" + std::to_string(ref.size()) + ",\"max_abs_difference\":" + jnum(md) + ",\"same_as_one_worker_when_the_cost_model_is_fixed\":" + (restored ? "true" : "false") + ",\"problem\":" + pj + "}";
		if (restored) viol("C12:fit(monodim):coefficients-depend-on-worker-count:through-the-update-or-refactorise-cost-model-of-modify_factor", dj);
		else viol("C12:fit(monodim):coefficients-depend-on-worker-count", dj);
	}
	unsetenv("GOTO_NUM_THREADS");
	if (vf_delay_sync_calls > sync0) count("real-fits:problems-that-reached-the-parallel-line-search");
	if (cs % 4 == 0) sample("{\"kind\":\"real fit\",\"problem\":" + pj + ",\"coefficients\":" + std::to_string(ref.size()) + "}");
}

int main(int argc, char **argv) {
	Args a = parse_args(argc, argv);
	open_out(a.outpath);
	cholmod_l_start(&verif_cholmod_common);
	if (a.extra.count("delay")) vf_delay_permille = atoi(a.extra.at("delay").c_str());
	bool fits = a.prop == "C12fit"; if (fits) vf_delay_permille = 0;
	for (long cs = a.from; cs < a.to; cs++) { begin_case(cs); if (fits) run_fit(a, cs); else run(a, cs); }
	finish();
	fflush(stdout);
	return 0;
}
