// h_thr.cpp - C12 part 2/3: real threads with seeded delays, for the ThreadSanitizer build and for helgrind.
// Monotonic NNLS problems and direct line searches are repeated with 1..32 workers; the results must be bit-identical
// across worker counts; race reports are collected from the tool's output by the driver.
#include "vf.h"
#include <cholmod.h>
#include <photospline/detail/splineutil.h>
extern "C" {
#include "cholesky_solve.h"
}
#define VF_DELAY_IMPL
#include "sched/vf_delay_shim.h"
unsigned long long vf_delay_seed = 1; volatile long vf_delay_sync_calls = 0; int vf_delay_permille = 300;

using namespace vf;
cholmod_common verif_cholmod_common; // global on purpose: helgrind names the object in "inside data symbol"

static void set_workers(int n) { char b[16]; snprintf(b, 16, "%d", n); setenv("OMP_NUM_THREADS", b, 1); unsetenv("GOTO_NUM_THREADS"); }

static void run(const Args &a, long cs) {
	Rng r(a.seed, "C12thr", cs);
	cholmod_common *cc = &verif_cholmod_common;
	bool direct = cs % 2 == 0;
	int workers[] = {1, 2, 3, 8, 32, 5};
	int nw = a.extra.count("maxworkers") ? 3 : 6;
	std::vector<double> ref; int refret = 0; bool have = false;
	int n = direct ? r.range(6, 30) : r.range(12, 60); int nneg = direct ? (int)r.below(std::min(n, 10)) : 0;
	// problem data (fixed across worker counts)
	int m = n + 2 + (int)r.below(4); std::vector<double> B((size_t)m * n), b(n), x0(n), xF(n);
	for (auto &v : B) v = r.coin(direct ? 1.0 : 0.5) ? r.U() - 0.4 : 0; for (auto &v : b) v = r.U() - (direct ? 0.0 : 0.45);
	for (int i = 0; i < n; i++) { x0[i] = 0.2 + r.U(); xF[i] = i < nneg ? -0.1 - r.U() : 0.3 + r.U(); }
	count("problems"); count(direct ? "problems:direct-line-search" : "problems:nnls_normal_block3");
	long sync0 = vf_delay_sync_calls;
	for (int wi = 0; wi < nw; wi++) {
		set_workers(workers[wi]); vf_delay_seed = a.seed * 7919 + (uint64_t)cs * 31 + wi;
		cholmod_dense *Bd = cholmod_l_allocate_dense(m, n, m, CHOLMOD_REAL, cc); memcpy(Bd->x, B.data(), sizeof(double) * m * n);
		cholmod_sparse *Bs = cholmod_l_dense_to_sparse(Bd, 1, cc), *Bt = cholmod_l_transpose(Bs, 1, cc);
		cholmod_sparse *A = cholmod_l_ssmult(Bt, Bs, 0, 1, 1, cc);
		{ // A += 1e-3 I keeps it positive definite
			cholmod_sparse *I = cholmod_l_speye(n, n, CHOLMOD_REAL, cc); double one[2] = {1, 0}, eps[2] = {1e-3, 0}; cholmod_sparse *A2 = cholmod_l_add(A, I, one, eps, 1, 1, cc); cholmod_l_free_sparse(&A, cc); cholmod_l_free_sparse(&I, cc); A = A2;
		}
		cholmod_dense *bd = cholmod_l_allocate_dense(n, 1, n, CHOLMOD_REAL, cc); memcpy(bd->x, b.data(), sizeof(double) * n);
		std::vector<double> res; int ret = 0;
		phase_log(std::string(direct ? "walk_descents" : "nnls_normal_block3") + " workers=" + std::to_string(workers[wi]));
		if (direct) {
			cholmod_dense *x = cholmod_l_allocate_dense(n, 1, n, CHOLMOD_REAL, cc), *xf = cholmod_l_allocate_dense(n, 1, n, CHOLMOD_REAL, cc);
			memcpy(x->x, x0.data(), 8 * n); memcpy(xf->x, xF.data(), 8 * n);
			std::vector<long> F(n), H1(n + 2); for (int i = 0; i < n; i++) F[i] = i; long nF = n, nH1 = 0; int rc = 0; double rs = 1e300;
			ret = walk_descents(A, bd, x, xf, F.data(), &nF, H1.data(), &nH1, &rs, &rc, 0, cc);
			res.assign((double *)x->x, (double *)x->x + n); res.push_back(rs); res.push_back((double)nH1); for (long i = 0; i < nH1; i++) res.push_back((double)H1[i]);
			cholmod_l_free_dense(&x, cc); cholmod_l_free_dense(&xf, cc);
		} else {
			cholmod_dense *x = nnls_normal_block3(A, bd, 0, cc);
			if (!x) { viol("C12:nnls_normal_block3:returned-NULL", "{}"); } else { res.assign((double *)x->x, (double *)x->x + n); cholmod_l_free_dense(&x, cc); }
		}
		count("runs"); count("runs:workers=" + std::to_string(workers[wi]));
		if (!have) { ref = res; refret = ret; have = true; }
		else {
			// what the fit hands to its caller are float coefficients: that is the level at which the property speaks. Last-bit differences of the
			// double-precision NNLS vector (modify_factor chooses update vs. refactorisation from the worker count) are recorded, not judged.
			bool same = ret == refret && res.size() == ref.size();
			bool same_dbl = same && (res.empty() || memcmp(res.data(), ref.data(), 8 * res.size()) == 0);
			if (same) for (size_t i = 0; i < res.size(); i++) { float fa = (float)res[i], fb = (float)ref[i]; if (memcmp(&fa, &fb, 4) != 0) same = false; }
			if (direct && !same_dbl) same = false; // the line search itself performs the same arithmetic for every worker count: bitwise there
			count("worker-count-comparisons");
			if (same && !same_dbl) note("double-precision-NNLS-vector-differs-in-last-bits-across-worker-counts(float-coefficients-identical)");
			if (!same) viol(std::string("C12:") + (direct ? "walk_descents" : "nnls_normal_block3") + ":result-depends-on-worker-count", "{\"workers\":" + std::to_string(workers[wi]) + ",\"n\":" + std::to_string(n) + ",\"result\":" + jarrd(res).substr(0, 600) + ",\"reference(1 worker)\":" + jarrd(ref).substr(0, 600) + "}");
		}
		cholmod_l_free_dense(&bd, cc); cholmod_l_free_dense(&Bd, cc); cholmod_l_free_sparse(&Bs, cc); cholmod_l_free_sparse(&Bt, cc); cholmod_l_free_sparse(&A, cc);
	}
	if (vf_delay_sync_calls > sync0) { count("problems-that-reached-the-parallel-line-search"); distinct(hash_mix(hash_mix(12, cs), (uint64_t)n)); }
	count("synchronisation-calls-observed", vf_delay_sync_calls - sync0);
	if (cs % 10 == 0) sample("{\"kind\":" + jstr(direct ? "direct walk_descents" : "nnls_normal_block3") + ",\"n\":" + std::to_string(n) + ",\"n_alpha\":" + std::to_string(direct ? 2 + nneg : -1) + ",\"sync_calls\":" + std::to_string(vf_delay_sync_calls - sync0) + "}");
}

int main(int argc, char **argv) {
	Args a = parse_args(argc, argv);
	open_out(a.outpath);
	cholmod_l_start(&verif_cholmod_common);
	if (a.extra.count("delay")) vf_delay_permille = atoi(a.extra.at("delay").c_str());
	for (long cs = a.from; cs < a.to; cs++) { begin_case(cs); run(a, cs); }
	finish();
	fflush(stdout);
	return 0;
}
