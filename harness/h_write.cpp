// h_write.cpp - C08: interrupted and failing writes.
//  * stdio layer under cfitsio is interposed (fopen64, fwrite, fseek, fseeko64, fflush, fclose, ftruncate64, remove):
//    every operation on the file being written is recorded {op, offset, bytes} and can be failed on demand.
//  * crash points: the file image after every prefix of the recorded operations, and after byte-granular cuts inside
//    every fwrite, is handed to read_fits; it must be rejected or load equal to the table written.
//  * fault sequences: write_fits is re-run with exactly one (transient) or a persistent (sticky) failure of the i-th
//    operation; it may report success only if the file on disk reads back equal.
#include <cstdlib>
#include <algorithm>
#include <array>
#include <cassert>
#include <chrono>
#include <cmath>
#include <functional>
#include <iostream>
#include <limits>
#include <map>
#include <memory>
#include <numeric>
#include <random>
#include <set>
#include <sstream>
#include <stdexcept>
#include <string>
#include <vector>
#include <string.h>
#include <fitsio.h>
#include <fitsio2.h>
#include <cholmod.h>
extern "C" void *vf_realloc(void *p, size_t n);
#define realloc vf_realloc            // write_fits_mem hands `realloc` to cfitsio: route it through a failure countdown
#include "vf_spec.h"
#undef realloc
#include <photospline/cinter/splinetable.h>
#include <dlfcn.h>
#include <stdio_ext.h>
#include <errno.h>
#include <sys/stat.h>

using namespace vf;
typedef photospline::splinetable<> Table;

// ---------------------------------------------------------------- interposed stdio
struct Op { char kind; long off; std::vector<unsigned char> data; int whence; };
enum { F_NONE = 0, F_FOPEN, F_FWRITE_ZERO, F_FWRITE_PART, F_FFLUSH, F_FCLOSE, F_FSEEK, F_FTRUNC, F_REMOVE };
static struct {
	bool armed = false;        // interposition active for the target path
	std::string target;
	FILE *tf = nullptr;
	bool record = false;
	std::vector<Op> ops;
	long opcount = 0;          // operations on the target seen in this run
	int fault_kind = F_NONE; long fault_at = -1; bool sticky = false; int fault_errno = ENOSPC;
	long fired = 0;
	long kind_count[16] = {0};
} G;
template <class F> static F real(const char *n) { return (F)dlsym(RTLD_NEXT, n); }
static bool hit(int kind_class) {
	// kind_class: which function is being called; fault fires on the fault_at-th operation overall (op index), if the kinds match
	(void)kind_class; return false;
}
static bool should_fail(int fk1, int fk2 = -1) {
	if (G.fault_kind == F_NONE) return false;
	if (G.fault_kind != fk1 && G.fault_kind != fk2) return false;
	long idx = G.opcount - 1; // index of the current op
	if (idx == G.fault_at || (G.sticky && idx > G.fault_at && G.fired > 0)) { G.fired++; return true; }
	return false;
}
extern "C" {
FILE *fopen64(const char *p, const char *m) {
	static auto r = real<FILE *(*)(const char *, const char *)>("fopen64");
	if (G.armed && p && G.target == p && (m[0] == 'w' || strchr(m, '+'))) {
		G.opcount++;
		if (G.record) { Op o; o.kind = 'o'; o.off = 0; G.ops.push_back(o); }
		if (should_fail(F_FOPEN)) { errno = G.fault_errno; return nullptr; }
		FILE *f = r(p, m); G.tf = f; return f;
	}
	return r(p, m);
}
size_t fwrite(const void *p, size_t s, size_t n, FILE *f) {
	static auto r = real<size_t (*)(const void *, size_t, size_t, FILE *)>("fwrite");
	if (G.armed && f && f == G.tf) {
		G.opcount++;
		if (G.record) { Op o; o.kind = 'w'; o.off = ftello(f); o.data.assign((const unsigned char *)p, (const unsigned char *)p + s * n); G.ops.push_back(o); }
		if (should_fail(F_FWRITE_ZERO)) { errno = G.fault_errno; return 0; }
		if (should_fail(F_FWRITE_PART)) { size_t part = (s * n) / 2; if (part) r(p, 1, part, f); errno = G.fault_errno; return s ? part / s : 0; }
	}
	return r(p, s, n, f);
}
int fseek(FILE *f, long off, int wh) {
	static auto r = real<int (*)(FILE *, long, int)>("fseek");
	if (G.armed && f && f == G.tf) { G.opcount++; if (G.record) { Op o; o.kind = 's'; o.off = off; o.whence = wh; G.ops.push_back(o); } if (should_fail(F_FSEEK)) { errno = EIO; return -1; } }
	return r(f, off, wh);
}
int fseeko64(FILE *f, off64_t off, int wh) {
	static auto r = real<int (*)(FILE *, off64_t, int)>("fseeko64");
	if (G.armed && f && f == G.tf) { G.opcount++; if (G.record) { Op o; o.kind = 's'; o.off = (long)off; o.whence = wh; G.ops.push_back(o); } if (should_fail(F_FSEEK)) { errno = EIO; return -1; } }
	return r(f, off, wh);
}
int fflush(FILE *f) {
	static auto r = real<int (*)(FILE *)>("fflush");
	if (G.armed && f && f == G.tf) { G.opcount++; if (G.record) { Op o; o.kind = 'f'; o.off = 0; G.ops.push_back(o); } if (should_fail(F_FFLUSH)) { __fpurge(f); errno = G.fault_errno; return EOF; } }
	return r(f);
}
int fclose(FILE *f) {
	static auto r = real<int (*)(FILE *)>("fclose");
	if (G.armed && f && f == G.tf) {
		G.opcount++; if (G.record) { Op o; o.kind = 'c'; o.off = 0; G.ops.push_back(o); }
		G.tf = nullptr;
		if (should_fail(F_FCLOSE)) { __fpurge(f); r(f); errno = G.fault_errno; return EOF; } // buffered data never reached the disk
	}
	return r(f);
}
int ftruncate64(int fd, off64_t len) {
	static auto r = real<int (*)(int, off64_t)>("ftruncate64");
	if (G.armed && G.tf && fd == fileno(G.tf)) { G.opcount++; if (G.record) { Op o; o.kind = 't'; o.off = (long)len; G.ops.push_back(o); } if (should_fail(F_FTRUNC)) { errno = EIO; return -1; } }
	return r(fd, len);
}
int remove(const char *p) {
	static auto r = real<int (*)(const char *)>("remove");
	if (G.armed && p && G.target == p) { G.opcount++; if (G.record) { Op o; o.kind = 'r'; o.off = 0; G.ops.push_back(o); } if (should_fail(F_REMOVE)) { errno = EACCES; return -1; } }
	return r(p);
}
// fread: cfitsio's disk driver reads through it. While armed, the k-th call (and with `sticky` every later one) delivers nothing / half of what was asked for.
static struct { bool armed = false; long count = 0, fail_at = -1, fired = 0; bool sticky = false; int mode = 0; } RD;
size_t fread(void *p, size_t s, size_t n, FILE *f) {
	static auto r = real<size_t (*)(void *, size_t, size_t, FILE *)>("fread");
	if (RD.armed) {
		long idx = RD.count++;
		if (RD.fail_at >= 0 && (idx == RD.fail_at || (RD.sticky && idx > RD.fail_at))) { RD.fired++; errno = EIO; if (RD.mode == 0 || s * n < 2) return 0; size_t part = (s * n) / 2; size_t got = r(p, 1, part, f); return s ? got / s : 0; }
	}
	return r(p, s, n, f);
}
// realloc used by write_fits_mem (through the macro above)
static long g_realloc_countdown = -1; static long g_realloc_calls = 0; static long g_realloc_failed = 0;
void *vf_realloc(void *p, size_t n) {
	g_realloc_calls++;
	if (g_realloc_countdown >= 0) { if (g_realloc_countdown == 0) { g_realloc_failed++; errno = ENOMEM; return nullptr; } g_realloc_countdown--; }
	return realloc(p, n);
}
}

// ---------------------------------------------------------------- helpers
static bool write_file(const std::string &p, const unsigned char *d, size_t n) { FILE *f = fopen(p.c_str(), "wb"); if (!f) return false; bool ok = n == 0 || fwrite(d, 1, n, f) == n; fclose(f); return ok; }
static bool same_table(const Table &a, const Table &b) {
	if (a.get_ndim() != b.get_ndim()) return false;
	for (unsigned d = 0; d < a.get_ndim(); d++) {
		if (a.get_order(d) != b.get_order(d) || a.get_nknots(d) != b.get_nknots(d) || a.get_ncoeffs(d) != b.get_ncoeffs(d)) return false;
		if (memcmp(a.get_knots(d), b.get_knots(d), 8 * a.get_nknots(d))) return false;
	}
	if (a.get_ncoeffs() != b.get_ncoeffs()) return false;
	return memcmp(a.get_coefficients(), b.get_coefficients(), 4 * a.get_ncoeffs()) == 0;
}
// 0 = rejected, 1 = loads equal, 2 = loads different
static int try_load(const std::string &path, const Table &orig, std::string *what = nullptr) {
	Table u;
	int fd = dup(2); int dn = open("/dev/null", O_WRONLY); dup2(dn, 2); close(dn); // cfitsio reports every rejected file on stderr
	bool ok = true;
	try { u.read_fits(path); } catch (std::exception &e) { ok = false; if (what) *what = e.what(); }
	fflush(stderr); dup2(fd, 2); close(fd);
	if (!ok) return 0;
	return same_table(u, orig) ? 1 : 2;
}
static Spec sized_spec(Rng &r, int t) {
	// coefficient data of about {1,2,9,41,42,300,...} FITS blocks (cfitsio keeps 40 block buffers: beyond that it flushes out of order)
	static const int blocks[] = {1, 2, 9, 41, 42, 300, 1, 5, 43, 120, 3, 80};
	int nb = blocks[t % 12]; size_t want = (size_t)nb * 720 - r.below(300);
	int nd = 1 + (int)(t % 5); Spec s; size_t tot = 1;
	for (int d = 0; d < nd; d++) {
		unsigned o = (unsigned)r.below(4); size_t rem = (size_t)std::max(1.0, std::floor(std::pow((double)want / tot, 1.0 / (nd - d))));
		size_t nax = d == nd - 1 ? std::max<size_t>(o + 1, want / tot) : std::max<size_t>(o + 1, rem);
		int nk = (int)(nax + o + 1);
		s.order.push_back(o); s.knots.push_back(gen_knots(r, o, nk, 1, 1.0, r.U(), true)); tot *= nax;
	}
	s.coef.resize(tot); for (size_t i = 0; i < tot; i++) s.coef[i] = (float)(1.0 + 0.001 * (double)(i % 100000) + r.U());
	if (r.coin(0.5)) s.aux.push_back({"AKEY", "42"});
	// many auxiliary keys: the primary header outgrows its 36-card block after the coefficient data were written, and cfitsio has to shift the data
	int naux = 0; if (t % 3 == 2) { naux = 12 + (int)r.below(45); for (int i = 0; i < naux; i++) s.aux.push_back({r.coin(0.5) ? "K" + std::to_string(i) : "A_LONG_KEYWORD_NUMBER_" + std::to_string(i), "value " + std::to_string(i * 7)}); }
	s.flavor = "blocks~" + std::to_string(nb) + (naux ? ",auxkeys~" + std::to_string(naux) : "");
	return s;
}
static std::vector<unsigned char> image_after(const std::vector<Op> &ops, size_t nops, long cut_bytes /* of op nops, -1 = none */) {
	std::vector<unsigned char> img;
	auto apply = [&](const Op &o, size_t nbytes) {
		if (o.kind == 'w') { size_t end = (size_t)o.off + nbytes; if (img.size() < end) img.resize(end, 0); std::copy(o.data.begin(), o.data.begin() + nbytes, img.begin() + o.off); }
		else if (o.kind == 't') img.resize((size_t)o.off, 0);
	};
	for (size_t i = 0; i < nops && i < ops.size(); i++) apply(ops[i], ops[i].data.size());
	if (cut_bytes >= 0 && nops < ops.size() && ops[nops].kind == 'w') apply(ops[nops], (size_t)cut_bytes);
	return img;
}

static std::string g_tmp;
static const int SLICES = 16;

static void run_C08(const Args &a, long cs) {
	long t = cs / (2 * SLICES); int slice = (int)(cs % (2 * SLICES)); bool faults = slice >= SLICES; slice %= SLICES;
	Rng r(a.seed, "C08", t);
	Spec s = sized_spec(r, (int)t);
	Table T; if (!load(T, s)) { viol("C08:load:well-formed-table-rejected", s.full_json()); return; }
	std::string path = g_tmp + "/w." + std::to_string(getpid()) + ".fits", crash = g_tmp + "/crash." + std::to_string(getpid()) + ".fits";
	unlink(path.c_str());
	// ---- record one successful write
	G = decltype(G)(); G.target = path; G.armed = true; G.record = true;
	phase("write_fits (recording)");
	try { T.write_fits(path); } catch (std::exception &e) { G.armed = false; viol("C08:write_fits:threw-without-any-fault", "{\"what\":" + jstr(e.what()) + "}"); return; }
	G.armed = false; G.record = false;
	std::vector<Op> ops = G.ops;
	if (try_load(path, T) != 1) { viol("C08:write_fits:complete-file-does-not-read-back-equal", s.full_json()); return; }
	struct stat st; stat(path.c_str(), &st);
	{ std::vector<unsigned char> full = image_after(ops, ops.size(), -1); if ((long)full.size() != (long)st.st_size) { fprintf(stderr, "recorded image %zu != file %ld\n", full.size(), (long)st.st_size); viol("C08:harness:recorded-operations-do-not-reproduce-the-file", "{}"); return; } }
	size_t nw = 0, ooo = 0; long maxend = 0; for (auto &o : ops) if (o.kind == 'w') { nw++; if (o.off < maxend) ooo++; maxend = std::max(maxend, o.off + (long)o.data.size()); }
	if (slice == 0 && !faults) { count("tables"); count("recorded-ops", (long)ops.size()); count("recorded-fwrites", (long)nw); count("out-of-order-writes", (long)ooo); count("file-blocks", (long)(st.st_size / 2880)); count("ndim:" + std::to_string(s.ndim())); }
	unlink(path.c_str());
	if (!faults) {
		// ---- crash states: op prefixes and byte cuts inside every fwrite; slice = state index mod SLICES
		long sidx = 0; long ncuts = a.tier == "thorough" ? 48 : 10;
		auto check_state = [&](size_t nops, long cut) {
			if (sidx++ % SLICES != slice) return;
			std::vector<unsigned char> img = image_after(ops, nops, cut);
			write_file(crash, img.data(), img.size());
			phasef("read_fits of crash state ops=" + std::to_string(nops) + " cut=" + std::to_string(cut));
			std::string what; int res = try_load(crash, T, &what);
			count("crash-states"); count(res == 0 ? "crash-states-rejected" : res == 1 ? "crash-states-load-equal" : "crash-states-load-DIFFERENT");
			distinct(hash_mix(hash_mix(s.hash(), nops), (uint64_t)(cut + 7)));
			if (res == 2) viol("C08:crash-state:partial-file-loads-as-a-different-table", "{\"ops_applied\":" + std::to_string(nops) + ",\"cut_bytes\":" + std::to_string(cut) + ",\"image_size\":" + std::to_string(img.size()) + ",\"table\":" + s.brief() + "}");
			if (res == 1 && nops < ops.size()) count("crash-states-incomplete-but-equal");
		};
		for (size_t i = 0; i <= ops.size(); i++) {
			check_state(i, -1);
			if (i < ops.size() && ops[i].kind == 'w') {
				long n = (long)ops[i].data.size(); std::set<long> cuts;
				for (long b = 2880; b < n; b += 2880) { if (cuts.size() > (size_t)ncuts * 2) break; cuts.insert(b - 1); cuts.insert(b); cuts.insert(b + 1); }
				for (long c = 80; c < std::min(n, 2880L * 2); c += 80 * (1 + (long)r.below(6))) cuts.insert(c);
				for (long q = 0; q < ncuts; q++) cuts.insert(1 + (long)r.below((uint64_t)std::max(1L, n - 1)));
				cuts.insert(1); cuts.insert(n - 1);
				for (long c : cuts) if (c > 0 && c < n) check_state(i, c);
			}
		}
		if (slice == 0) sample("{\"table\":" + s.brief() + ",\"file_blocks\":" + std::to_string(st.st_size / 2880) + ",\"ops\":" + std::to_string(ops.size()) + ",\"fwrites\":" + std::to_string(nw) + ",\"crash_states_total\":" + std::to_string(sidx) + "}");
	} else {
		// ---- fault sequences: one failing operation (transient or persistent) at every operation index
		long fidx = 0;
		for (size_t i = 0; i < ops.size(); i++) {
			std::vector<int> kinds;
			switch (ops[i].kind) {
			case 'o': kinds = {F_FOPEN}; break;
			case 'w': kinds = {F_FWRITE_ZERO, F_FWRITE_PART}; break;
			case 's': kinds = {F_FSEEK}; break;
			case 'f': kinds = {F_FFLUSH}; break;
			case 'c': kinds = {F_FCLOSE}; break;
			case 't': kinds = {F_FTRUNC}; break;
			case 'r': kinds = {F_REMOVE}; break;
			}
			for (int k : kinds) for (int sticky = 0; sticky < ((k == F_FWRITE_ZERO || k == F_FWRITE_PART) ? 2 : 1); sticky++) {
				static const int errs[] = {ENOSPC, EFBIG, EIO};
				int en = errs[(i + k + sticky) % 3];
				if (fidx++ % SLICES != slice) continue;
				bool viaC = (fidx % 5) == 0;
				unlink(path.c_str());
				G = decltype(G)(); G.target = path; G.armed = true; G.fault_kind = k; G.fault_at = (long)i; G.sticky = sticky; G.fault_errno = en;
				phasef("write_fits with fault kind=" + std::to_string(k) + " at op " + std::to_string(i));
				bool reported_success;
				int fd = dup(2); int dn = open("/dev/null", O_WRONLY); dup2(dn, 2); close(dn);
				if (viaC) { splinetable h; h.data = &T; reported_success = writesplinefitstable(path.c_str(), &h) == 0; }
				else { try { T.write_fits(path); reported_success = true; } catch (std::exception &e) { reported_success = false; } }
				fflush(stderr); dup2(fd, 2); close(fd);
				long fired = G.fired; G.armed = false;
				if (G.tf) { FILE *leak = G.tf; G.tf = nullptr; fclose(leak); count("file-left-open-after-failed-write"); }
				count("faults-injected"); if (fired) count("faults-fired"); else count("faults-not-reached");
				static const char *kn[] = {"none", "fopen", "fwrite-zero", "fwrite-partial", "fflush", "fclose", "fseek", "ftruncate", "remove"};
				count(std::string("fault:") + kn[k]);
				distinct(hash_mix(hash_mix(s.hash(), 1000 + i), (uint64_t)(k * 2 + sticky)));
				struct stat s2; bool exists = stat(path.c_str(), &s2) == 0;
				int res = exists ? try_load(path, T) : 0;
				std::string dj = "{\"fault\":" + jstr(kn[k]) + ",\"at_op\":" + std::to_string(i) + ",\"sticky\":" + std::to_string(sticky) + ",\"errno\":" + std::to_string(en) + ",\"via_C\":" + (viaC ? "true" : "false") + ",\"file_exists\":" + (exists ? "true" : "false") + ",\"file_size\":" + std::to_string(exists ? (long)s2.st_size : -1L) + ",\"table\":" + s.brief() + "}";
				if (reported_success) {
					count("writes-reporting-success-under-fault");
					if (res != 1) viol(std::string("C08:write_fits:reported-success-but-file-does-not-read-back-equal:fault=") + kn[k], "{\"file_state\":" + jstr(exists ? (res == 0 ? "unreadable" : "loads-different") : "missing") + ",\"d\":" + dj + "}");
				} else {
					count("writes-reporting-failure");
					if (res == 2) viol(std::string("C08:write_fits:failed-write-left-a-file-that-loads-as-a-different-table:fault=") + kn[k], dj);
					if (res == 1) count("failed-writes-leaving-an-equal-file");
				}
				if (fired == 0 && !reported_success) viol("C08:write_fits:failed-although-no-fault-fired", dj);
			}
		}
		// ---- write_fits_mem with failing realloc (slice 0 only)
		if (slice == 0) {
			g_realloc_countdown = -1; g_realloc_calls = 0;
			auto w0 = T.write_fits_mem(); long ncalls = g_realloc_calls; free(w0.first);
			for (long k = 0; k < ncalls; k++) {
				g_realloc_countdown = k; g_realloc_failed = 0;
				phasef("write_fits_mem with realloc failure #" + std::to_string(k));
				bool ok = true; std::pair<void *, size_t> w(nullptr, 0);
				int fd = dup(2); int dn = open("/dev/null", O_WRONLY); dup2(dn, 2); close(dn);
				try { w = T.write_fits_mem(); } catch (std::exception &e) { ok = false; }
				fflush(stderr); dup2(fd, 2); close(fd);
				g_realloc_countdown = -1;
				count("realloc-faults-injected");
				if (ok) {
					Table u; bool rd = true; try { u.read_fits_mem(w.first, w.second); } catch (std::exception &e) { rd = false; }
					if (!rd || !same_table(u, T)) viol("C08:write_fits_mem:reported-success-but-buffer-does-not-read-back-equal:fault=realloc", "{\"realloc_call\":" + std::to_string(k) + ",\"table\":" + s.brief() + "}");
					free(w.first);
				} else count("write_fits_mem-failures-reported");
			}
			sample("{\"table\":" + s.brief() + ",\"ops\":" + std::to_string(ops.size()) + ",\"fault_sequences_total\":" + std::to_string(fidx) + ",\"realloc_calls\":" + std::to_string(ncalls) + "}");
		}
	}
	unlink(path.c_str()); unlink(crash.c_str());
}

// ================================================================ C08sys: the same property one layer further down
// The unmodified writer (no interposition armed, real glibc stdio) runs in a child process under `strace -e inject=`: one system call on the file being
// written fails (ENOSPC/EIO, once or from then on), or the process is killed on entering it (a real crash state on the real file system).
// The child's exit status is the writer's verdict; the parent reads the file back.
struct SysOp { std::string name; long ordinal; bool creat; };
static const char *SYS_TRACE = "openat,read,pread64,write,pwrite64,writev,lseek,close,ftruncate,fsync,fdatasync,unlink,rename";
struct SysRun { int status = -1; bool killed = false; int sig = 0; bool injected = false; std::vector<SysOp> ops; std::string injected_line; };
static SysRun sys_run(const std::string &inject, const std::string &in, const std::string &outp, const std::string &log, const char *api) {
	SysRun R; unlink(log.c_str());
	std::string cmd = std::string("strace -o ") + log + " -e trace=" + SYS_TRACE + (inject.empty() ? "" : " -e inject=" + inject) + " /proc/" + std::to_string(getpid()) + "/exe C08child " + in + " " + outp + " " + api + " >/dev/null 2>&1";
	int rc = system(cmd.c_str()); (void)rc;
	FILE *f = fopen(log.c_str(), "r"); if (!f) return R;
	char line[4096]; std::map<std::string, long> cnt; int outfd = -1;
	while (fgets(line, sizeof line, f)) {
		std::string L = line; while (!L.empty() && (L.back() == '\n' || L.back() == '\r')) L.pop_back();
		if (L.compare(0, 3, "+++") == 0) { if (L.find("exited with") != std::string::npos) R.status = atoi(L.c_str() + L.find("exited with") + 12); else if (L.find("killed by") != std::string::npos) { R.killed = true; R.sig = L.find("SIGKILL") != std::string::npos ? 9 : L.find("SIGSEGV") != std::string::npos ? 11 : L.find("SIGABRT") != std::string::npos ? 6 : L.find("SIGBUS") != std::string::npos ? 7 : 99; } continue; }
		if (L.compare(0, 3, "---") == 0) continue;
		size_t par = L.find('('); if (par == std::string::npos) continue; std::string name = L.substr(0, par); long ord = ++cnt[name];
		bool onout = false; bool creat = false;
		if (name == "openat" || name == "unlink" || name == "rename") { if (L.find("\"" + outp + "\"") != std::string::npos) { onout = true; if (name == "openat") { creat = L.find("O_CREAT") != std::string::npos; size_t eq = L.rfind(") = "); if (eq != std::string::npos) { int fd = atoi(L.c_str() + eq + 4); if (fd >= 0 && L.find("(INJECTED)") == std::string::npos) outfd = fd; } } } }
		else { int fd = atoi(L.c_str() + par + 1); if (outfd >= 0 && fd == outfd) { onout = true; if (name == "close" && L.find("(INJECTED)") == std::string::npos) outfd = -1; } }
		if (onout) { R.ops.push_back({name, ord, creat}); if (L.find("(INJECTED)") != std::string::npos || (L.find("= ?") != std::string::npos)) { R.injected = true; R.injected_line = L.substr(0, 160); } }
	}
	fclose(f); unlink(log.c_str());
	return R;
}
static void run_C08sys(const Args &a, long cs) {
	Rng r(a.seed, "C08sys", cs);
	Spec s = sized_spec(r, (int)cs);
	// one table in six carries ~1450 auxiliary keys: its primary header (41+ records) is larger than the 40 records cfitsio buffers, so that cfitsio re-reads and
	// re-positions inside the output file while finishing it; only then does the writer issue read() and data-path lseek() calls on its own output
	bool bighdr = cs % 6 == 5; if (bighdr) { for (int i = 0; i < 1450; i++) s.aux.push_back({"K" + std::to_string(i), "value " + std::to_string(i * 7)}); s.flavor += ",auxkeys~1450"; count("syscall-level:tables-with-a-header-larger-than-the-cfitsio-record-cache"); }
	Table T; if (!load(T, s)) { viol("C08:load:well-formed-table-rejected", s.full_json()); return; }
	// (one table in four is written to a name ending in .gz: cfitsio then keeps the image in memory and writes the compressed stream while closing the file)
	bool gz = cs % 4 == 3; if (gz) count("syscall-level:tables-written-compressed(.gz)");
	std::string base = g_tmp + "/sys." + std::to_string(getpid()), in = base + ".in.fits", outp = base + (gz ? ".out.fits.gz" : ".out.fits"), log = base + ".strace";
	{ Bytes b = mkfits(s); bool ok = write_file(in, (const unsigned char *)b.p, b.n); free(b.p); if (!ok) { note("syscall-level:could-not-write-input"); return; } }
	const char *api = r.coin(0.25) ? "c" : "cpp";
	unlink(outp.c_str());
	phase("syscall-level: baseline run under strace");
	SysRun B0 = sys_run("", in, outp, log, api);
	if (B0.status != 0 || B0.ops.empty()) { note("syscall-level:baseline-run-failed(strace-unavailable?)"); fprintf(stderr, "C08sys: baseline status=%d ops=%zu\n", B0.status, B0.ops.size()); unlink(in.c_str()); unlink(outp.c_str()); return; }
	if (try_load(outp, T) != 1) { viol("C08:write_fits(syscall-level):complete-file-does-not-read-back-equal", s.full_json()); return; }
	count("syscall-level:tables"); count("syscall-level:system-calls-on-the-file", (long)B0.ops.size()); for (auto &o : B0.ops) count("syscall-level:calls:" + o.name);
	// fault list
	struct Fault { size_t op; std::string spec, label; bool crash; };
	std::vector<Fault> fl;
	for (size_t i = 0; i < B0.ops.size(); i++) { const SysOp &o = B0.ops[i]; std::string w = ":when=" + std::to_string(o.ordinal);
		if (o.name == "write" || o.name == "pwrite64" || o.name == "writev") {
			// a write directly followed by an lseek is stdio flushing its buffer inside fseek: its failure surfaces as a failed seek, not as a failed fwrite
			std::string ln = o.name + ((i + 1 < B0.ops.size() && B0.ops[i + 1].name == "lseek") ? "(flush-inside-fseek)" : "");
			fl.push_back({i, o.name + ":error=ENOSPC" + w, ln + ":ENOSPC", false}); fl.push_back({i, o.name + ":error=EIO" + w + "+", ln + ":EIO-persistent", false}); fl.push_back({i, o.name + ":signal=KILL" + w, ln + ":killed", true}); }
		else if (o.name == "lseek" || o.name == "ftruncate" || o.name == "fsync" || o.name == "fdatasync") { fl.push_back({i, o.name + ":error=EIO" + w, o.name + ":EIO", false}); fl.push_back({i, o.name + ":signal=KILL" + w, o.name + ":killed", true}); }
		else if (o.name == "close") { fl.push_back({i, o.name + ":error=EIO" + w, "close:EIO", false}); fl.push_back({i, o.name + ":error=ENOSPC" + w, "close:ENOSPC", false}); fl.push_back({i, o.name + ":signal=KILL" + w, "close:killed", true}); }
		else if (o.name == "read" || o.name == "pread64") { fl.push_back({i, o.name + ":error=EIO" + w, o.name + ":EIO", false}); }
		else if (o.name == "openat") { fl.push_back({i, o.name + ":error=" + (o.creat ? "ENOSPC" : "EMFILE") + w, o.creat ? "openat(create):ENOSPC" : "openat(readonly):EMFILE", false}); }
		else if (o.name == "unlink" || o.name == "rename") { fl.push_back({i, o.name + ":error=EACCES" + w, o.name + ":EACCES", false}); }
	}
	size_t budget = a.tier == "thorough" ? 90 : 14;
	if (bighdr) { std::vector<Fault> keep; for (auto &F : fl) if (F.label.compare(0, 5, "lseek") == 0 || F.label.compare(0, 4, "read") == 0 || F.label.compare(0, 5, "pread") == 0) keep.push_back(F); if (!keep.empty()) fl = keep; budget *= 2; } // (the other calls are covered by the ordinary tables)
	std::vector<size_t> pick(fl.size()); std::iota(pick.begin(), pick.end(), 0); for (size_t i = pick.size(); i > 1; i--) std::swap(pick[i - 1], pick[r.below(i)]);
	// 60% of the budget for faults on write calls, the rest for the other calls (unused share goes to the other group)
	{ std::vector<size_t> wq, oq; for (size_t q : pick) (fl[q].label.compare(0, 5, "write") == 0 || fl[q].label.compare(0, 6, "pwrite") == 0 ? wq : oq).push_back(q);
	  size_t nw_ = std::min(wq.size(), budget * 6 / 10), no_ = std::min(oq.size(), budget - nw_); nw_ = std::min(wq.size(), budget - no_);
	  pick.assign(wq.begin(), wq.begin() + nw_); pick.insert(pick.end(), oq.begin(), oq.begin() + no_); }
	for (size_t q : pick) {
		Fault F = fl[q]; if (gz) F.label = "(gz)" + F.label; if (bighdr) F.label += "(header-larger-than-cfitsio-record-cache)"; unlink(outp.c_str());
		std::string ctx = "{\"inject\":" + jstr(F.spec) + ",\"api\":" + jstr(api) + ",\"call_index_on_file\":" + std::to_string(F.op) + ",\"of\":" + std::to_string(B0.ops.size()) + ",\"table\":" + s.brief() + "}";
		context(ctx); phase("syscall-level: faulted run under strace");
		SysRun R = sys_run(F.spec, in, outp, log, api);
		count("syscall-level:runs");
		if (!R.injected) { count("syscall-level:fault-did-not-fire"); continue; }
		count("syscall-level:faults-fired"); count("syscall-level:fired:" + F.label);
		distinct(hash_mix(hash_str(F.spec), s.hash()));
		std::string what; int ld = try_load(outp, T, &what); struct stat st; bool exists = stat(outp.c_str(), &st) == 0;
		std::string dj = "{\"fault\":" + ctx + ",\"child_status\":" + std::to_string(R.status) + ",\"killed_by\":" + std::to_string(R.sig) + ",\"file_exists\":" + (exists ? "true" : "false") + ",\"file_size\":" + std::to_string(exists ? (long)st.st_size : -1) + ",\"readback\":" + (ld == 0 ? "\"rejected-or-missing\"" : ld == 1 ? "\"equal\"" : "\"DIFFERENT\"") + ",\"injected_call\":" + jstr(R.injected_line) + "}";
		if (R.killed && R.sig == 9 && F.crash) { count("syscall-level:crash-states"); count(ld == 0 ? (exists ? "syscall-level:crash-states-rejected" : "syscall-level:crash-states-no-file") : ld == 1 ? "syscall-level:crash-states-load-equal" : "syscall-level:crash-states-load-DIFFERENT"); if (ld == 2) viol("C08:write_fits(syscall-level):crash-state-loads-as-a-different-table:at=" + F.label, dj); continue; }
		if (R.killed || (R.status != 0 && R.status != 3)) { viol("C08:write_fits(syscall-level):writer-died:status=" + std::to_string(R.status) + ":signal=" + std::to_string(R.sig) + ":fault=" + F.label, dj); continue; }
		if (R.status == 0) { count("syscall-level:writes-reporting-success-despite-fault"); if (ld != 1) viol("C08:write_fits(syscall-level):reported-success-but-file-does-not-read-back-equal:fault=" + F.label, dj); else count("syscall-level:success-and-file-reads-back-equal"); }
		else { count("syscall-level:writes-reporting-failure"); count(exists ? "syscall-level:failed-write-left-a-file" : "syscall-level:failed-write-left-no-file"); if (ld == 2) viol("C08:write_fits(syscall-level):failed-write-left-a-file-that-loads-as-a-different-table:fault=" + F.label, dj); }
		if (q % 7 == 0) sample(dj);
	}
	unlink(in.c_str()); unlink(outp.c_str());
}

// ================================================================ C20read: every position of a failing read
// read_fits / the path constructor / readsplinefitstable with the k-th fread failing (nothing or half delivered; once, or from then on): the read must fail and
// leave the object empty and reusable, or succeed with exactly the table in the file (knots, coefficients, extents, periods, every auxiliary key).
static bool same_everything(const Table &a, const Table &b, std::string &why) {
	if (!same_table(a, b)) { why = "knots-or-coefficients"; if (a.get_ndim() != b.get_ndim()) why = "ndim"; else { for (unsigned d = 0; d < a.get_ndim(); d++) { if (a.get_order(d) != b.get_order(d)) why = "order"; else if (a.get_nknots(d) != b.get_nknots(d)) why = "nknots"; else if (memcmp(a.get_knots(d), b.get_knots(d), 8 * a.get_nknots(d))) why = "knot-values"; } if (why == "knots-or-coefficients") why = "coefficient-values"; } return false; }
	for (unsigned d = 0; d < a.get_ndim(); d++) { if (!biteq(a.lower_extent(d), b.lower_extent(d)) || !biteq(a.upper_extent(d), b.upper_extent(d))) { why = "extents"; return false; } if (!biteq(a.get_period(d), b.get_period(d))) { why = "periods"; return false; } }
	if (a.get_naux_values() != b.get_naux_values()) { why = "number-of-aux-keys"; return false; }
	for (size_t i = 0; i < a.get_naux_values(); i++) { const char *k = a.get_aux_key(i), *k2 = b.get_aux_key(i); if (!k || !k2 || strcmp(k, k2)) { why = "aux-key"; return false; } const char *v = a.get_aux_value(k), *v2 = b.get_aux_value(k); if (!v || !v2 || strcmp(v, v2)) { why = "aux-value"; return false; } }
	return true;
}
static void run_C20read(const Args &a, long cs) {
	Rng r(a.seed, "C20read", cs);
	Spec s = sized_spec(r, (int)(cs % 3 == 0 ? 0 : cs)); // small tables mostly (few reads each), sometimes larger
	if (cs % 4 == 1) { s.aux.clear(); }
	if (cs % 12 == 7) { s.aux.clear(); for (int i = 0; i < 1500; i++) s.aux.push_back({"K" + std::to_string(i), std::to_string(i * 3)}); s.flavor += ",auxkeys~1500(header-larger-than-cfitsio's-record-cache)"; }
	add_custom_extents(r, s); if (r.coin(0.5)) for (int d = 0; d < s.ndim(); d++) s.periods.push_back(0.25 * (d + 1));
	std::string path = g_tmp + "/rd." + std::to_string(getpid()) + ".fits";
	{ Bytes b = mkfits(s); bool ok = write_file(path, (const unsigned char *)b.p, b.n); free(b.p); if (!ok) { note("C20read:could-not-write-input"); return; } }
	Table T; phase("read_fits (counting reads)"); RD = decltype(RD)(); RD.armed = true;
	try { T.read_fits(path); } catch (std::exception &e) { RD.armed = false; viol("C20:read_fits:threw-on-a-valid-file", "{\"what\":" + jstr(e.what()) + ",\"table\":" + s.brief() + "}"); unlink(path.c_str()); return; }
	RD.armed = false; long N = RD.count; count("read-fault:tables"); count("read-fault:fread-calls(unfaulted)", N);
	long budget = a.tier == "thorough" ? 160 : 40; long step = N > budget ? (N + budget - 1) / budget : 1;
	for (long k = cs % step; k < N; k += step) for (int variant = 0; variant < 3; variant++) {
		int entry = (int)r.below(3); const char *en[] = {"read_fits", "path-constructor", "C:readsplinefitstable"};
		RD = decltype(RD)(); RD.fail_at = k; RD.sticky = variant == 2; RD.mode = variant == 1 ? 1 : 0;
		std::string ctx = "{\"entry\":" + jstr(en[entry]) + ",\"failing_fread\":" + std::to_string(k) + ",\"of\":" + std::to_string(N) + ",\"kind\":" + jstr(variant == 0 ? "nothing-delivered" : variant == 1 ? "half-delivered" : "nothing-from-then-on") + ",\"table\":" + s.brief() + "}";
		context(ctx); phasef(std::string(en[entry]) + " with a failing fread");
		Table *U = nullptr; splinetable h; h.data = nullptr; bool threw = false;
		int fd2 = dup(2); int dn = open("/dev/null", O_WRONLY); dup2(dn, 2); close(dn); RD.armed = true;
		try { if (entry == 0) { U = new Table(); U->read_fits(path); } else if (entry == 1) U = new Table(path); else { threw = readsplinefitstable(path.c_str(), &h) != 0; U = static_cast<Table *>(h.data); } } catch (std::exception &e) { threw = true; }
		RD.armed = false; fflush(stderr); dup2(fd2, 2); close(fd2);
		count("read-fault:runs"); if (RD.fired) count("read-fault:faults-fired"); distinct(hash_mix(hash_mix(s.hash(), (uint64_t)k * 8 + variant), entry));
		bool bighdr = s.aux.size() > 1400; // more header records than cfitsio keeps buffers for: it re-reads them, and a failed re-read is swallowed inside cfitsio (recorded finding)
		if (!threw) { count("read-fault:reads-reporting-success"); std::string why; if (!U || !same_everything(*U, T, why)) viol(bighdr ? std::string("C20:read(any-entry):read-reported-success-after-a-failed-fread-but-the-table-differs:header-larger-than-cfitsio-record-cache") : std::string("C20:") + en[entry] + ":read-reported-success-after-a-failed-fread-but-the-table-differs:" + why, ctx); else { phase("use after faulted successful read"); auto w = U->write_fits_mem(); free(w.first); } }
		else { count("read-fault:reads-reporting-failure");
			if (U && (U->get_ndim() != 0 || U->get_naux_values() != 0)) viol(std::string("C20:") + en[entry] + ":failed-read-left-the-object-non-empty", ctx);
			if (U && entry != 1) { phase("reuse after failed read"); bool ok2 = true; try { U->read_fits(path); } catch (std::exception &e) { ok2 = false; } std::string why; if (!ok2 || !same_everything(*U, T, why)) viol(std::string("C20:") + en[entry] + ":object-not-reusable-after-a-failed-read", ctx); } }
		phase("destroy after faulted read"); if (entry == 2) splinetable_free(&h); else delete U;
	}
	unlink(path.c_str());
}

// child of the syscall-level pass: plain library use, no interposed faults; the verdict of the writer is the exit status (0 = reported success, 3 = threw)
static int child_main(int argc, char **argv) {
	if (argc < 5) _exit(2);
	std::string in = argv[2], outp = argv[3], api = argv[4];
	Table T; try { T.read_fits(in); } catch (std::exception &e) { _exit(4); }
	if (api == "c") { splinetable h; h.data = &T; int rc = writesplinefitstable(outp.c_str(), &h); _exit(rc == 0 ? 0 : 3); }
	try { T.write_fits(outp); } catch (std::exception &e) { _exit(3); } catch (...) { _exit(5); }
	_exit(0);
}

int main(int argc, char **argv) {
	if (argc >= 2 && !strcmp(argv[1], "C08child")) return child_main(argc, argv);
	Args a = parse_args(argc, argv);
	open_out(a.outpath);
	g_tmp = a.tmpdir;
	for (long cs = a.from; cs < a.to; cs++) {
		begin_case(cs);
		if (a.prop == "C08") run_C08(a, cs);
		else if (a.prop == "C08sys") run_C08sys(a, cs);
		else if (a.prop == "C20read") { prop_id() = "C20"; run_C20read(a, cs); }
		else { fprintf(stderr, "unknown mode %s\n", a.prop.c_str()); return 2; }
	}
	finish();
	fflush(stdout);
	_exit(0);
}
