/* vf_delay_shim.h - force-included when compiling src/fitter/cholesky_solve.c for the real-thread passes (TSan, helgrind):
 * seeded random delays around every synchronisation call widen the windows in which workers and coordinator overlap. */
#ifndef VF_DELAY_SHIM_H
#define VF_DELAY_SHIM_H
#include <pthread.h>
#include <sched.h>
#include <unistd.h>
#include <stdlib.h>
#ifdef __cplusplus
extern "C" {
#endif
extern unsigned long long vf_delay_seed;     /* set by the harness */
extern volatile long vf_delay_sync_calls;    /* evidence: synchronisation calls seen */
extern int vf_delay_permille;                /* probability of a delay at a synchronisation call */
static inline void vf_maybe_delay(void) {
	static __thread unsigned long long s = 0;
	if (!s) s = vf_delay_seed ^ ((unsigned long long)pthread_self() * 0x9E3779B97F4A7C15ULL) ^ 0x1234567;
	s ^= s << 13; s ^= s >> 7; s ^= s << 17;
	__sync_fetch_and_add(&vf_delay_sync_calls, 1);
	if ((int)(s % 1000) < vf_delay_permille) { if ((s >> 20) & 1) sched_yield(); else usleep((useconds_t)((s >> 24) % 300)); }
}
static inline int vf_d_lock(pthread_mutex_t *m) { vf_maybe_delay(); return pthread_mutex_lock(m); }
static inline int vf_d_unlock(pthread_mutex_t *m) { int r = pthread_mutex_unlock(m); vf_maybe_delay(); return r; }
static inline int vf_d_wait(pthread_cond_t *c, pthread_mutex_t *m) { int r = pthread_cond_wait(c, m); vf_maybe_delay(); return r; }
static inline int vf_d_broadcast(pthread_cond_t *c) { vf_maybe_delay(); return pthread_cond_broadcast(c); }
#ifdef __cplusplus
}
#endif
#ifndef VF_DELAY_IMPL
#define pthread_mutex_lock vf_d_lock
#define pthread_mutex_unlock vf_d_unlock
#define pthread_cond_wait vf_d_wait
#define pthread_cond_broadcast vf_d_broadcast
#define sched_setaffinity(a, b, c) 0
#endif
#endif
