/* vf_sched.c - a controlled scheduler for the pthread calls of cholesky_solve.c.
 * Real threads exist, but only the one holding the baton runs; every vs_* call is a scheduling point at which the
 * strategy picks the next enabled thread. Mutex / condition-variable semantics are modelled here; protocol errors are
 * detected; a state with no enabled thread while some thread is unfinished is a DEADLOCK (decided, not timed out). */
#define VS_IMPL
#define _GNU_SOURCE 1
#include "vf_sched_shim.h"
#include "vf_sched.h"
#include <semaphore.h>
#include <stdio.h>
#include <stdlib.h>
#include <string.h>
#include <unistd.h>

enum { RUNNABLE, B_MUTEX, B_COND, B_JOIN, FINISHED };
#define MAXT 16
typedef struct { int used, status; void *waitobj; sem_t sem; pthread_t real; void *(*fn)(void *); void *arg; int joined; long prio; } vthread;
static vthread T[MAXT];
static int nT = 0;
static __thread int me = -1;
typedef struct { pthread_mutex_t *m; int owner; int alive; } vmutex;
static vmutex M[64]; static int nM = 0;
static vs_result R;
static unsigned char prefix[VS_MAXTRACE]; static int prefix_len = 0;
static int mode = VS_MODE_DEFAULT; static unsigned long long rng; static int pct_depth = 0; static int spurious_pm = 0;
static int pct_change[8]; static long pct_low = -1;

static unsigned long long rnd(void) { rng += 0x9E3779B97F4A7C15ULL; unsigned long long z = rng; z = (z ^ (z >> 30)) * 0xBF58476D1CE4E5B9ULL; z = (z ^ (z >> 27)) * 0x94D049BB133111EBULL; return z ^ (z >> 31); }

void vs_reset(void) {
	memset(T, 0, sizeof T); memset(&R, 0, sizeof R); nT = 1; T[0].used = 1; T[0].status = RUNNABLE; sem_init(&T[0].sem, 0, 0); me = 0; nM = 0;
	prefix_len = 0; mode = VS_MODE_DEFAULT; R.nthreads = 1;
}
void vs_set_prefix(const unsigned char *c, int n) { if (n > VS_MAXTRACE) n = VS_MAXTRACE; memcpy(prefix, c, n); prefix_len = n; }
void vs_set_mode(int m, unsigned long long seed, int depth, int sp) {
	mode = m; rng = seed * 0x2545F4914F6CDD1DULL + 99; pct_depth = depth > 8 ? 8 : depth; spurious_pm = sp;
	for (int i = 0; i < MAXT; i++) T[i].prio = 1000 + (long)(rnd() % 1000);
	for (int i = 0; i < pct_depth; i++) pct_change[i] = (int)(rnd() % 120);
	pct_low = 0;
}
const vs_result *vs_get_result(void) { return &R; }
static void fail(int status, const char *what) {
	R.status = status; snprintf(R.detail, sizeof R.detail, "%s; thread states:", what);
	for (int i = 0; i < nT; i++) { char b[24]; snprintf(b, sizeof b, " t%d=%s", i, T[i].status == RUNNABLE ? "run" : T[i].status == B_MUTEX ? "mutex" : T[i].status == B_COND ? "cond" : T[i].status == B_JOIN ? "join" : "done"); strncat(R.detail, b, sizeof R.detail - strlen(R.detail) - 1); }
	vs_abort_run(&R);
	_exit(status);
}
static vmutex *getm(pthread_mutex_t *m) { for (int i = 0; i < nM; i++) if (M[i].m == m) return &M[i]; if (nM >= 64) fail(VS_PROTOCOL, "too many mutexes"); M[nM].m = m; M[nM].owner = -1; M[nM].alive = 0; return &M[nM++]; }

/* called by the running thread at every scheduling point; picks the next thread and hands the baton over */
static void schedule(void) {
	int en[MAXT], n = 0;
	if (spurious_pm > 0 && mode != VS_MODE_DEFAULT) /* POSIX allows spurious wake-ups */
		for (int i = 0; i < nT; i++) if (T[i].status == B_COND && (int)(rnd() % 1000) < spurious_pm) { T[i].status = RUNNABLE; R.spurious++; }
	for (int i = 0; i < nT; i++) if (T[i].status == RUNNABLE) en[n++] = i;
	if (n == 0) { int allfin = 1; for (int i = 0; i < nT; i++) if (T[i].status != FINISHED) allfin = 0; if (allfin) return; fail(VS_DEADLOCK, "DEADLOCK: no enabled thread"); }
	int self_enabled = (T[me].status == RUNNABLE);
	int k = R.ntrace;
	if (k >= VS_MAXTRACE) fail(VS_LIVELOCK, "LIVELOCK: decision budget exhausted");
	int def = self_enabled ? me : en[0];
	int next = def;
	if (k < prefix_len) { next = prefix[k]; int ok = 0; for (int i = 0; i < n; i++) if (en[i] == next) ok = 1; if (!ok) fail(VS_DIVERGED, "replay diverged: prescribed thread not enabled"); }
	else if (mode == VS_MODE_RANDOM) next = en[rnd() % n];
	else if (mode == VS_MODE_PCT) {
		for (int i = 0; i < pct_depth; i++) if (pct_change[i] == k && self_enabled) T[me].prio = --pct_low; /* priority change point */
		long best = -1000000; for (int i = 0; i < n; i++) if (T[en[i]].prio > best) { best = T[en[i]].prio; next = en[i]; }
	}
	unsigned mask = 0; for (int i = 0; i < n; i++) if (en[i] < 8) mask |= 1u << en[i];
	R.choice[k] = (unsigned char)next; R.enabled[k] = (unsigned char)mask; R.self_enabled[k] = (unsigned char)self_enabled; R.defchoice[k] = (unsigned char)def; R.ntrace++;
	if (self_enabled && next != me) R.preemptions++;
	if (next == me) return;
	sem_post(&T[next].sem);
	if (T[me].status != FINISHED) { int m = me; sem_wait(&T[m].sem); }
}
static void *tramp(void *p) { int id = (int)(long)p; me = id; sem_wait(&T[id].sem); void *r = T[id].fn(T[id].arg); vs_exit(r); return 0; }
int vs_create(pthread_t *t, const pthread_attr_t *a, void *(*fn)(void *), void *arg) {
	if (nT >= MAXT) fail(VS_PROTOCOL, "too many threads");
	int id = nT++; R.nthreads = nT; T[id].used = 1; T[id].status = RUNNABLE; T[id].fn = fn; T[id].arg = arg; T[id].prio = T[id].prio ? T[id].prio : 1000 + id; sem_init(&T[id].sem, 0, 0);
	if (pthread_create(&T[id].real, a, tramp, (void *)(long)id)) fail(VS_PROTOCOL, "real pthread_create failed");
	*t = T[id].real; schedule(); return 0;
}
static int findt(pthread_t t) { for (int i = 1; i < nT; i++) if (pthread_equal(T[i].real, t)) return i; return -1; }
int vs_join(pthread_t t, void **r) {
	int id = findt(t); if (id < 0) fail(VS_PROTOCOL, "PROTOCOL: join of unknown thread"); if (T[id].joined) fail(VS_PROTOCOL, "PROTOCOL: thread joined twice");
	schedule();
	while (T[id].status != FINISHED) { T[me].status = B_JOIN; T[me].waitobj = &T[id]; schedule(); }
	T[id].joined = 1; return pthread_join(t, r);
}
void vs_exit(void *r) {
	for (int i = 0; i < nM; i++) if (M[i].owner == me) fail(VS_PROTOCOL, "PROTOCOL: thread exits holding a mutex");
	T[me].status = FINISHED;
	for (int i = 0; i < nT; i++) if (T[i].status == B_JOIN && T[i].waitobj == &T[me]) T[i].status = RUNNABLE;
	schedule(); pthread_exit(r);
}
int vs_mutex_init(pthread_mutex_t *m, const pthread_mutexattr_t *a) { (void)a; vmutex *v = getm(m); v->owner = -1; v->alive = 1; return 0; }
int vs_mutex_destroy(pthread_mutex_t *m) { vmutex *v = getm(m); if (v->owner != -1) fail(VS_PROTOCOL, "PROTOCOL: destroy of a locked mutex"); for (int i = 0; i < nT; i++) if (T[i].status == B_MUTEX && T[i].waitobj == m) fail(VS_PROTOCOL, "PROTOCOL: destroy of a mutex with waiters"); v->alive = 0; return 0; }
int vs_mutex_lock(pthread_mutex_t *m) {
	vmutex *vm = getm(m); if (!vm->alive) fail(VS_PROTOCOL, "PROTOCOL: lock of an uninitialised/destroyed mutex"); if (vm->owner == me) fail(VS_PROTOCOL, "PROTOCOL: recursive lock");
	schedule();
	while (vm->owner != -1) { T[me].status = B_MUTEX; T[me].waitobj = m; schedule(); }
	vm->owner = me; return 0;
}
int vs_mutex_unlock(pthread_mutex_t *m) {
	vmutex *vm = getm(m); if (vm->owner != me) fail(VS_PROTOCOL, "PROTOCOL: unlock by non-owner");
	vm->owner = -1; for (int i = 0; i < nT; i++) if (T[i].status == B_MUTEX && T[i].waitobj == m) T[i].status = RUNNABLE;
	schedule(); return 0;
}
int vs_cond_init(pthread_cond_t *c, const pthread_condattr_t *a) { (void)c; (void)a; return 0; }
int vs_cond_destroy(pthread_cond_t *c) { for (int i = 0; i < nT; i++) if (T[i].status == B_COND && T[i].waitobj == c) fail(VS_PROTOCOL, "PROTOCOL: destroy of a condition variable with waiters"); return 0; }
int vs_cond_wait(pthread_cond_t *c, pthread_mutex_t *m) {
	vmutex *vm = getm(m); if (vm->owner != me) fail(VS_PROTOCOL, "PROTOCOL: cond_wait without holding the mutex");
	schedule(); /* a thread that does not need this mutex may run between the caller's last check and its going to sleep */
	vm->owner = -1; for (int i = 0; i < nT; i++) if (T[i].status == B_MUTEX && T[i].waitobj == m) T[i].status = RUNNABLE;
	T[me].status = B_COND; T[me].waitobj = c; schedule();
	while (vm->owner != -1) { T[me].status = B_MUTEX; T[me].waitobj = m; schedule(); }
	vm->owner = me; return 0;
}
int vs_cond_broadcast(pthread_cond_t *c) { for (int i = 0; i < nT; i++) if (T[i].status == B_COND && T[i].waitobj == c) T[i].status = RUNNABLE; schedule(); return 0; }
int vs_cond_signal(pthread_cond_t *c) {
	/* POSIX: "at least one" waiter; which one is the scheduler's choice */
	int w[MAXT], n = 0; for (int i = 0; i < nT; i++) if (T[i].status == B_COND && T[i].waitobj == c) w[n++] = i;
	if (n) { int pick = (mode == VS_MODE_DEFAULT) ? w[0] : w[rnd() % n]; T[pick].status = RUNNABLE; }
	schedule(); return 0;
}
