/* vf_sched.h - control interface of the user-level scheduler (harness side) */
#ifndef VF_SCHED_H
#define VF_SCHED_H
#ifdef __cplusplus
extern "C" {
#endif
#define VS_MAXTRACE 20000
enum { VS_OK = 0, VS_DEADLOCK = 42, VS_DIVERGED = 43, VS_PROTOCOL = 44, VS_LIVELOCK = 45 };
enum { VS_MODE_DEFAULT = 0, VS_MODE_RANDOM = 1, VS_MODE_PCT = 2 };
typedef struct {
	int status;            /* VS_* */
	int ntrace;            /* decisions taken */
	int nthreads;          /* threads ever created (incl. main) */
	int preemptions;       /* decisions where the running thread was enabled but another was chosen */
	int spurious;          /* spurious condition-variable wake-ups injected */
	char detail[200];      /* protocol error / deadlock description */
	unsigned char choice[VS_MAXTRACE];
	unsigned char enabled[VS_MAXTRACE];     /* bit mask of enabled threads at the decision (threads 0..7) */
	unsigned char self_enabled[VS_MAXTRACE];
	unsigned char defchoice[VS_MAXTRACE];   /* what the default policy would have chosen */
} vs_result;
void vs_reset(void);
void vs_set_prefix(const unsigned char *choices, int n);
void vs_set_mode(int mode, unsigned long long seed, int pct_depth, int spurious_permille);
/* the harness provides this: called on deadlock / protocol error / livelock, must not return */
void vs_abort_run(const vs_result *r);
const vs_result *vs_get_result(void);
#ifdef __cplusplus
}
#endif
#endif
