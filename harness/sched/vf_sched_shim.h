/* vf_sched_shim.h - force-included (-include) when compiling src/fitter/cholesky_solve.c for the controlled-scheduler build:
 * every pthread synchronisation call becomes a scheduling point of the user-level scheduler in vf_sched.c. */
#ifndef VF_SCHED_SHIM_H
#define VF_SCHED_SHIM_H
#include <pthread.h>
#include <sched.h>
#ifdef __cplusplus
extern "C" {
#endif
int vs_create(pthread_t *, const pthread_attr_t *, void *(*)(void *), void *);
int vs_join(pthread_t, void **);
void vs_exit(void *) __attribute__((noreturn));
int vs_mutex_init(pthread_mutex_t *, const pthread_mutexattr_t *);
int vs_mutex_lock(pthread_mutex_t *);
int vs_mutex_unlock(pthread_mutex_t *);
int vs_mutex_destroy(pthread_mutex_t *);
int vs_cond_init(pthread_cond_t *, const pthread_condattr_t *);
int vs_cond_wait(pthread_cond_t *, pthread_mutex_t *);
int vs_cond_broadcast(pthread_cond_t *);
int vs_cond_signal(pthread_cond_t *);
int vs_cond_destroy(pthread_cond_t *);
#ifdef __cplusplus
}
#endif
#ifndef VS_IMPL
#define pthread_create(a, b, c, d) vs_create(a, b, (void *(*)(void *))(c), d)
#define pthread_join vs_join
#define pthread_exit vs_exit
#define pthread_mutex_init vs_mutex_init
#define pthread_mutex_lock vs_mutex_lock
#define pthread_mutex_unlock vs_mutex_unlock
#define pthread_mutex_destroy vs_mutex_destroy
#define pthread_cond_init vs_cond_init
#define pthread_cond_wait vs_cond_wait
#define pthread_cond_broadcast vs_cond_broadcast
#define pthread_cond_signal vs_cond_signal
#define pthread_cond_destroy vs_cond_destroy
#define sched_setaffinity(a, b, c) 0
#endif
#endif
