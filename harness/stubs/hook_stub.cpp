// Hook definitions for repository executables (CLI tools) built with -DPHOTOSPLINE_VERIF outside a harness.
#include <cstdio>
#include <cstdlib>
extern "C" void photospline_verif_core(const char *) {}
extern "C" void photospline_verif_search_overrun(void) { fprintf(stderr, "verif: searchcenters exceeded 64 binary-search steps\n"); abort(); }
