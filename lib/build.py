"""Build cache: compiles the repository sources from $VERIF_REPO (default /repo) *as they are on
disk now* together with a harness, one sanitizer family per variant.  Objects are cached under
/verif/build/<variant>-<hash of every file under include/ and src/ + flags>/ so an edited tree
always recompiles and an unchanged one costs nothing."""
import hashlib, os, subprocess, sys, shutil, time
from concurrent.futures import ThreadPoolExecutor

VERIF = os.path.dirname(os.path.dirname(os.path.abspath(__file__)))
REPO = os.environ.get('VERIF_REPO', '/repo')
BUILD = os.environ.get('VERIF_BUILD', os.path.join(VERIF, 'build'))
GUARD = 'PHOTOSPLINE_VERIF'

COMMON_DEFS = ['-DPHOTOSPLINE_INCLUDES_SPGLAM', '-D' + GUARD, '-DPHOTOSPLINE_VERSION=2.1.0']
SSE = ['-msse2', '-msse3', '-msse4', '-msse4.1', '-msse4.2', '-mno-avx']
WARN = ['-w']
VARIANTS = {
    # the repo's PUBLIC options, asserts on
    'prod': dict(cc='gcc', cxx='g++', flags=['-O3', '-g'] + SSE, ld=[]),
    'prod-notmpl': dict(cc='gcc', cxx='g++', flags=['-O3', '-g', '-DPHOTOSPLINE_NO_EVAL_TEMPLATES'] + SSE, ld=[]),
    'asan': dict(cc='gcc', cxx='g++',
                 flags=['-O1', '-g', '-fno-omit-frame-pointer', '-fsanitize=address,undefined',
                        '-fno-sanitize-recover=all', '-fno-sanitize=vla-bound'] + SSE,
                 ld=['-fsanitize=address,undefined']),
    'tsan': dict(cc='gcc', cxx='g++', flags=['-O1', '-g', '-fno-omit-frame-pointer', '-fsanitize=thread'] + SSE,
                 ld=['-fsanitize=thread']),
    # coverage-guided fuzzing (clang only: gcc has no -fsanitize=fuzzer); the harness supplies LLVMFuzzerTestOneInput
    'fuzz': dict(cc='clang', cxx='clang++',
                 flags=['-O1', '-g', '-fno-omit-frame-pointer', '-fsanitize=fuzzer-no-link,address,undefined',
                        '-fno-sanitize-recover=all', '-fno-sanitize=vla-bound,object-size'] + SSE,
                 ld=['-fsanitize=fuzzer,address,undefined']),
    'plain-g': dict(cc='gcc', cxx='g++', flags=['-O1', '-g', '-fno-omit-frame-pointer'] + SSE, ld=[]),
}
LIBS = ['-lcfitsio', '-lcholmod', '-lspqr', '-lopenblas', '-lpthread', '-lrt', '-ldl', '-lm']
INC = lambda: ['-I' + os.path.join(REPO, 'include'), '-I/usr/include/suitesparse',
               '-I' + os.path.join(VERIF, 'harness', 'common'), '-I' + os.path.join(VERIF, 'harness'), '-I' + os.path.join(REPO, 'src', 'fitter')]

CORE_SRC = ['src/core/bspline.cpp', 'src/core/bspline_multi.cpp', 'src/core/convolve.cpp', 'src/core/fitsio.cpp']
FIT_SRC = ['src/fitter/cholesky_solve.c', 'src/fitter/glam.c', 'src/fitter/nnls.c', 'src/fitter/splineutil.c']
CINTER_SRC = ['src/cinter/splinetable.cpp']


class BuildError(Exception):
    pass


def _hash_files(paths, extra=''):
    h = hashlib.sha256()
    for p in sorted(paths):
        h.update(p.encode())
        try:
            with open(p, 'rb') as f:
                h.update(f.read())
        except OSError:
            h.update(b'<missing>')
    h.update(extra.encode())
    return h.hexdigest()[:16]


def repo_files():
    out = []
    for sub in ('include', 'src'):
        for d, _, fs in os.walk(os.path.join(REPO, sub)):
            if '/python' in d:
                continue
            for f in fs:
                out.append(os.path.join(d, f))
    return out


def repo_hash(variant, extra=''):
    v = VARIANTS[variant]
    return _hash_files(repo_files(), variant + ' '.join(v['flags']) + ' '.join(COMMON_DEFS) + extra)


def _run(cmd, log):
    r = subprocess.run(cmd, stdout=subprocess.PIPE, stderr=subprocess.STDOUT)
    if r.returncode != 0:
        log.append('$ ' + ' '.join(cmd) + '\n' + r.stdout.decode(errors='replace')[-6000:])
        return False
    return True


def _compile(variant, src, obj, extra_flags, log):
    if os.path.exists(obj):
        return True
    v = VARIANTS[variant]
    is_c = src.endswith('.c')
    cmd = [v['cc'] if is_c else v['cxx'], '-std=gnu99' if is_c else '-std=gnu++11']
    cmd += v['flags'] + COMMON_DEFS + WARN + INC() + extra_flags + ['-c', src, '-o', obj + '.tmp%d' % os.getpid()]
    if is_c:
        cmd.insert(2, '-D_GNU_SOURCE=1')
    ok = _run(cmd, log)
    if ok:
        os.replace(obj + '.tmp%d' % os.getpid(), obj)
    return ok


def prune(keep_dirs):
    """keep the build tree small: drop cache dirs not used by this invocation when more than 12 exist"""
    try:
        ds = [os.path.join(BUILD, d) for d in os.listdir(BUILD)]
    except OSError:
        return
    ds = [d for d in ds if os.path.isdir(d) and d not in keep_dirs]
    ds.sort(key=lambda d: os.path.getmtime(d))
    while len(ds) > 60:
        shutil.rmtree(ds.pop(0), ignore_errors=True)


def build(targets, jobs=16, verbose=False):
    """targets: list of dicts {variant, harness (path rel. to harness/), extra_src:[...], fitter_flags:[...],
    extra_flags:[...], libs:[...], name}.  Returns {name: binary path}.  Raises BuildError."""
    os.makedirs(BUILD, exist_ok=True)
    log = []
    jobs_list = []   # (variant, src, obj, flags)
    links = []
    used = set()
    for t in targets:
        variant = t['variant']
        fitter_flags = t.get('fitter_flags', [])
        # force-included shim headers are part of the key
        shim = ''.join(_hash_files([f]) for f in fitter_flags if os.path.isfile(f))
        rh = repo_hash(variant, ' '.join(fitter_flags) + shim)
        d = os.path.join(BUILD, '%s-%s' % (variant, rh))
        os.makedirs(d, exist_ok=True)
        os.utime(d, None)
        used.add(d)
        objs = []
        srcs = CORE_SRC + FIT_SRC + (CINTER_SRC if t.get('cinter', True) else [])
        for s in srcs:
            o = os.path.join(d, s.replace('/', '_') + '.o')
            fl = fitter_flags if s in FIT_SRC else []
            jobs_list.append((variant, os.path.join(REPO, s), o, fl))
            objs.append(o)
        def _hp(x):
            return os.path.join(REPO, x[5:]) if x.startswith('repo:') else os.path.join(VERIF, 'harness', x)
        hsrcs = [_hp(t['harness'])] + [_hp(e) for e in t.get('extra_src', [])]
        common = [os.path.join(VERIF, 'harness', 'common', f) for f in sorted(os.listdir(os.path.join(VERIF, 'harness', 'common')))]
        common += [os.path.join(VERIF, 'harness', 'sched', f) for f in sorted(os.listdir(os.path.join(VERIF, 'harness', 'sched')))]
        hh = _hash_files(hsrcs + common, ' '.join(t.get('extra_flags', [])) + ' '.join(t.get('libs', [])))
        name = t.get('name') or (os.path.splitext(os.path.basename(t['harness']))[0] + '.' + variant)
        hobjs = []
        for hs in hsrcs:
            ho = os.path.join(d, 'h_%s_%s_%s.o' % (os.path.basename(hs).replace('.', '_'), hh, name))
            jobs_list.append((variant, hs, ho, t.get('extra_flags', [])))
            hobjs.append(ho)
        binp = os.path.join(d, '%s-%s' % (name, hh))
        links.append((variant, binp, hobjs + objs, t.get('libs', []), name))
    # dedupe compile jobs by object path
    seen = {}
    for j in jobs_list:
        seen[j[2]] = j
    todo = [j for j in seen.values() if not os.path.exists(j[2])]
    t0 = time.time()
    if todo:
        if verbose:
            print('[build] compiling %d objects' % len(todo), file=sys.stderr)
        with ThreadPoolExecutor(max_workers=jobs) as ex:
            res = list(ex.map(lambda j: _compile(j[0], j[1], j[2], j[3], log), todo))
        if not all(res):
            raise BuildError('\n'.join(log))
    out = {}
    for variant, binp, objs, libs, name in links:
        if not os.path.exists(binp):
            v = VARIANTS[variant]
            cmd = [v['cxx']] + v['ld'] + ['-rdynamic', '-o', binp + '.tmp%d' % os.getpid()] + objs + libs + LIBS
            if not _run(cmd, log):
                raise BuildError('\n'.join(log))
            os.replace(binp + '.tmp%d' % os.getpid(), binp)
        out[name] = binp
    if verbose and todo:
        print('[build] done in %.1fs' % (time.time() - t0), file=sys.stderr)
    prune(used)
    return out
