"""Generic driver: runs harness passes in parallel worker processes, restarts after crashes,
derives finding keys from sanitizer output, matches known findings, writes evidence."""
import json, os, re, signal, struct, subprocess, sys, tempfile, threading, time, shutil
from concurrent.futures import ThreadPoolExecutor
from . import build as B

VERIF = B.VERIF
SIGNAMES = {int(getattr(signal, n)): n for n in dir(signal) if n.startswith('SIG') and not n.startswith('SIG_')}

ASAN_ENV = 'abort_on_error=1:detect_leaks=0:handle_abort=0:allocator_may_return_null=1:detect_stack_use_after_return=0:malloc_context_size=12:max_allocation_size_mb=4096'
UBSAN_ENV = 'print_stacktrace=1:halt_on_error=1'
TSAN_ENV = 'halt_on_error=0:second_deadlock_stack=1:history_size=4'


def base_env():
    e = dict(os.environ)
    e['OPENBLAS_NUM_THREADS'] = '1'
    e.setdefault('OMP_NUM_THREADS', '1')
    e['ASAN_OPTIONS'] = ASAN_ENV
    e['UBSAN_OPTIONS'] = UBSAN_ENV
    e['TSAN_OPTIONS'] = TSAN_ENV
    e['MALLOC_PERTURB_'] = '165'
    return e


def _fn_name(s):
    """strip template arguments / parameter lists from a symbolised frame"""
    s = s.strip()
    out = []
    depth = 0
    for ch in s:
        if ch in '<(':
            depth += 1
        elif ch in '>)':
            depth -= 1
        elif depth == 0:
            out.append(ch)
    n = ''.join(out).strip()
    n = re.sub(r'\[with.*$', '', n).strip()
    n = re.sub(r'\[.*?\]', '', n).strip()
    while n.endswith(' const') or n.endswith(' volatile'):
        n = n.rsplit(' ', 1)[0].strip()
    if 'operator' in n:
        n = n[n.index('operator'):].replace(' ', '')
    elif ' ' in n:
        n = n.split(' ')[-1]
    return n.replace('photospline::', '')


RUNTIME_FRAMES = ('__interceptor', '__asan', '__ubsan', '__sanitizer', '__lsan', '__tsan', 'operator new', 'operator delete',
                  '__libc_start', '_start', '__GI_', 'raise', 'abort', '__assert', 'std::', '__gnu_cxx', 'vf::')


def _frames(text, maxn=2, repo_only=True):
    """innermost frames that belong to photospline (file under the repo) - function names only"""
    res = []
    for m in re.finditer(r'^\s*#\d+ 0x[0-9a-f]+ in (.+?) (/[^\s:]+)(?::\d+)*', text, re.M):
        fn, path = m.group(1), m.group(2)
        if any(fn.startswith(p) for p in RUNTIME_FRAMES):
            continue
        inrepo = ('/include/photospline' in path) or ('/src/fitter' in path) or ('/src/core' in path) or ('/src/cinter' in path) or ('/src/tools' in path)
        if repo_only and not inrepo:
            if '/harness/' in path:
                if res:
                    break
                continue
            continue
        n = _fn_name(fn)
        if n and (not res or res[-1] != n):
            res.append(n)
        if len(res) >= maxn:
            break
    return res


def classify_crash(prop, stderr_text, sig, phase):
    """-> (key, short description).  Keys are line-number free."""
    t = stderr_text
    m = re.search(r'ERROR: AddressSanitizer: ([\w-]+)', t)
    if m:
        kind = m.group(1)
        seg = t[m.start():]
        fr = _frames(seg, 2) or _frames(seg, 2, repo_only=False)
        # a report raised inside an uninstrumented third-party library before any photospline frame
        lib = re.search(r'^\s*#[0-9]+ 0x[0-9a-f]+ in (\w+) \(/[^)]*lib(cfitsio|cholmod|spqr|openblas)[^)]*\)', seg, re.M)
        first_repo = re.search(r'^\s*#\d+ 0x[0-9a-f]+ in .+? /[^\s:]*(/include/photospline|/src/(fitter|core|cinter|tools))', seg, re.M)
        if lib and (not first_repo or lib.start() < first_repo.start()):
            fr = ['in-%s' % lib.group(2), lib.group(1)] + fr[:1]
        if seg.startswith('ERROR: AddressSanitizer: allocator is out of memory') or 'exceeds maximum supported size' in seg[:400]:
            kind = 'out-of-memory'
        if kind in ('allocation-size-too-big', 'out-of-memory', 'requested'):
            return ('%s:asan-oom:%s:%s' % (prop, kind, '|'.join(fr) or phase), 'ASan allocator limit')
        return ('%s:asan:%s:%s' % (prop, kind, '|'.join(fr) or phase), 'AddressSanitizer ' + kind)
    m = re.search(r'^(\S+?):\d+:\d+: runtime error: (.+)$', t, re.M)
    if m:
        msg = re.sub(r'0x[0-9a-f]+', 'ADDR', m.group(2))
        msg = re.sub(r'-?\d+(\.\d+)?(e[+-]?\d+)?', 'N', msg)
        msg = re.sub(r"'[^']*'", 'T', msg)[:80].strip()
        seg = t[m.start():]
        fr = _frames(seg, 1) or [os.path.basename(m.group(1))]
        return ('%s:ubsan:%s:%s' % (prop, msg.replace(' ', '_'), fr[0]), 'UBSan ' + msg)
    m = re.search(r"([\w./+-]+):\d+: (.+?): Assertion `(.+?)' failed", t)
    if m:
        return ('%s:assert:%s:%s' % (prop, _fn_name(m.group(2)), re.sub(r'\s+', '', m.group(3))[:60]), 'assertion failed')
    m = re.search(r'ERROR: LeakSanitizer', t)
    if m:
        fr = _frames(t[m.start():], 2)
        return ('%s:leak:%s' % (prop, '<'.join(fr) or phase), 'LeakSanitizer')
    m = re.search(r"terminate called after throwing an instance of '([^']+)'", t)
    if m:
        return ('%s:terminate:%s:%s' % (prop, m.group(1), phase), 'uncaught exception')
    m = re.search(r'WARNING: ThreadSanitizer: ([\w -]+?) \(', t)
    if m:
        return ('%s:tsan:%s:%s' % (prop, m.group(1).replace(' ', '-'), '|'.join(_frames(t[m.start():], 2))), 'ThreadSanitizer')
    if 'stack-overflow' in t or (sig == signal.SIGSEGV and 'stack' in t.lower()):
        return ('%s:stack-overflow:%s' % (prop, phase), 'stack overflow')
    return ('%s:signal:%s:%s' % (prop, SIGNAMES.get(sig, str(sig)), phase), 'killed by signal')


def _is_lib_loc(loc):
    return ('bspline' in loc or 'splinetable' in loc or 'fitsio.h' in loc or 'convolve' in loc or 'glam.c' in loc or 'nnls.c' in loc or 'cholesky_solve.c' in loc
            or 'splineutil.c' in loc or 'permute.h' in loc or 'grideval.h' in loc or 'aux.h' in loc or 'fit.h' in loc) and 'vf_' not in loc and '/harness/' not in loc


def OUTDIR(kind):
    """evidence/ and replays/ live in /verif; VERIF_OUT redirects both (tryouts of seeded changes must not overwrite the evidence of the real tree)"""
    o = os.environ.get('VERIF_OUT')
    return os.path.join(o, kind) if o else os.path.join(VERIF, kind)


def scan_reports(prop, text):
    """race reports of ThreadSanitizer / helgrind in a process's output -> list of (key, snippet)"""
    out = []
    for m in re.finditer(r'WARNING: ThreadSanitizer: ([\w -]+?) \(pid=\d+\)(.*?)(?=\n=====|\Z)', text, re.S):
        kind, body = m.group(1).strip().replace(' ', '-'), m.group(2)
        stacks = re.split(r'\n\s*\n', body)
        ents = []
        for st in stacks[:3]:
            fr = _frames(st, 1)
            if fr and (not ents or ents[-1] != fr[0]):
                ents.append(fr[0])
        loc = re.search(r"Location is global '([^']+)'", body)
        out.append(('%s:tsan:%s:%s%s' % (prop, kind, '|'.join(ents[:2]) or 'unknown', (':' + loc.group(1)) if loc else ''), m.group(0)[:3000]))
    # memcheck: only reports with a photospline frame count (uninitialised values reaching results or control flow, invalid accesses)
    for b in re.split(r'\n==\d+== \n', text):
        m = re.search(r'==\d+== (Conditional jump or move depends on uninitialised value\(s\)|Use of uninitialised value of size \d+|Invalid (?:read|write) of size \d+|Syscall param .*? uninitialised)', b)
        if not m:
            continue
        first = b.split('Uninitialised value was created')[0].split('Address 0x')[0]
        fn = None
        for fm in re.finditer(r'==\d+==\s+(?:at|by) 0x[0-9A-F]+: (.+?) \(([^()]*)\)\s*$', first, re.M):
            loc = fm.group(2)
            if _is_lib_loc(loc):
                fn = _fn_name(fm.group(1))
                break
        kind = re.sub(r'\d+', 'N', m.group(1)).replace(' ', '-')[:60]
        if not fn and 'Uninitialised value was created' in b:
            # the value is used in the harness (it judges what the library returned) but was created inside the library: an uninitialised result
            for fm in re.finditer(r'==\d+==\s+(?:at|by) 0x[0-9A-F]+: (.+?) \(([^()]*)\)\s*$', b.split('Uninitialised value was created')[1], re.M):
                loc = fm.group(2)
                if _is_lib_loc(loc):
                    fn = 'created-in:' + _fn_name(fm.group(1))
                    break
        if fn:
            out.append(('%s:memcheck:%s:%s' % (prop, kind, fn), b[:3000]))
    # helgrind
    blocks = re.split(r'\n==\d+== \n', text)
    for b in blocks:
        if 'Possible data race' not in b and 'Thread #' not in b:
            continue
        if 'Possible data race' not in b:
            continue
        halves = b.split('This conflicts with a previous')
        ents = []
        for h in halves[:2]:
            fn = None
            for fm in re.finditer(r'==\d+==\s+(?:at|by) 0x[0-9A-F]+: (\w+) \(([^)]*)\)', h):
                if '.c:' in fm.group(2) or '.h:' in fm.group(2) or '.cpp:' in fm.group(2):
                    if 'vg_replace' in fm.group(2) or 'vf_delay' in fm.group(2) or '/harness/' in fm.group(2):
                        continue
                    fn = fm.group(1)
                    break
            ents.append(fn or 'unknown')
        lib = re.search(r'==\d+==\s+at 0x[0-9A-F]+: (\w+) \(in [^)]*lib(cholmod|openblas|suitesparseconfig)', halves[0])
        sym = re.search(r'inside data symbol "([^"]+)"', b)
        obj = sym.group(1) if sym else ('heap-block' if 'block of size' in b else 'unknown-object')
        # keyed by the function performing the reported access and the object raced on (helgrind's "previous access" stack is approximate)
        key = '%s:helgrind-race:%s:%s%s' % (prop, ents[0] if ents else 'unknown', obj, (':in-' + lib.group(2)) if lib else '')
        out.append((key, b[:3000]))
    return out


class Findings:
    def __init__(self):
        p = os.path.join(VERIF, 'known_findings.json')
        self.entries = json.load(open(p)) if os.path.exists(p) else []

    def known(self, prop, key):
        for e in self.entries:
            if e.get('property') == prop and e.get('status') == 'known' and e.get('key') == key:
                return e
        return None


class Pass:
    """one harness invocation family: binary + mode + number of cases"""

    def __init__(self, name, target, mode, cases, args=None, env=None, stall_s=600, chunk=None, weight=1.0, wrapper=None, extra_bins=None):
        self.name, self.target, self.mode, self.cases = name, target, mode, cases
        self.args = args or []
        self.env = env or {}
        self.stall_s = stall_s
        self.chunk = chunk
        self.weight = weight
        self.wrapper = wrapper  # e.g. ['valgrind', ...]
        self.extra_bins = extra_bins or {}   # --<key> <path of another built target>
        self.scan = None        # 'tool': scan the process output for race reports (TSan / helgrind) even if it exits normally


class Result:
    def __init__(self):
        self.counters = {}
        self.samples = []
        self.hashes = set()
        self.viol = {}      # key -> dict(first witness)
        self.viol_count = {}
        self.cases_run = 0
        self.harness_errors = []
        self.lock = threading.Lock()

    def add_viol(self, key, witness):
        with self.lock:
            self.viol_count[key] = self.viol_count.get(key, 0) + 1
            if key not in self.viol:
                self.viol[key] = witness


def _read_events(path):
    evs = []
    try:
        with open(path, 'r', errors='replace') as f:
            for line in f:
                line = line.strip()
                if not line:
                    continue
                try:
                    evs.append(json.loads(line))
                except ValueError:
                    if line.startswith('{"t":"done"'):
                        evs.append({'t': 'baddone', 'raw': line[:300]})
    except OSError:
        pass
    return evs


def _run_range(prop, ps, binp, seed, tier, a, b, tmpdir, res, wid, verbose=False):
    """run cases [a,b) of pass ps, restarting after crashes"""
    start = a
    rerun_hang = {}
    n_restart = 0
    while start < b:
        n_restart += 1
        outp = os.path.join(tmpdir, '%s.%s.w%d.r%d.jsonl' % (prop, ps.name, wid, n_restart))
        errp = outp + '.stderr'
        cmd = (ps.wrapper or []) + [binp, ps.mode, '--seed', str(seed), '--from', str(start), '--to', str(b), '--out', outp,
                                    '--tier', tier, '--tmp', tmpdir] + ps.args
        if verbose:
            cmd.append('--verbose')
        env = base_env()
        env.update(ps.env)
        with open(errp, 'wb') as ef:
            p = subprocess.Popen(cmd, stdout=ef, stderr=subprocess.STDOUT, env=env, cwd=tmpdir, start_new_session=True)
            last_size, last_t = -1, time.time()
            hung = False
            while True:
                try:
                    p.wait(timeout=0.5)
                    break
                except subprocess.TimeoutExpired:
                    pass
                try:
                    sz = os.path.getsize(outp)
                except OSError:
                    sz = 0
                if sz != last_size:
                    last_size, last_t = sz, time.time()
                elif time.time() - last_t > ps.stall_s:
                    hung = True
                    try:
                        os.killpg(p.pid, signal.SIGKILL)
                    except OSError:
                        p.kill()
                    p.wait()
                    break
        evs = _read_events(outp)
        last_begin, done, phase, restart, ctx = None, False, 'unknown', False, None
        for e in evs:
            t = e.get('t')
            if t == 'begin':
                last_begin = e['case']
                phase = 'unknown'
                ctx = None
            elif t == 'viol':
                res.add_viol(e['key'], dict(pass_name=ps.name, case=e['case'], seed=seed, tier=tier, detail=e.get('detail')))
            elif t == 'signal':
                phase = e.get('phase', 'unknown')
            elif t == 'phase':
                phase = e.get('p', 'unknown')
            elif t == 'ctx':
                ctx = e.get('v')
            elif t == 'restart':
                restart = True
            elif t == 'baddone':
                res.harness_errors.append('%s/%s: unparseable done record: %s' % (prop, ps.name, e['raw']))
                done = True
            elif t == 'done':
                done = True
                with res.lock:
                    for k, v in e.get('counters', {}).items():
                        res.counters[k] = max(res.counters.get(k, 0), v) if k.startswith('max-') else (min(res.counters.get(k, v), v) if k.startswith('min-') else res.counters.get(k, 0) + v)
                    for s in e.get('samples', []):
                        if len(res.samples) < 6:
                            res.samples.append(s)
        try:
            with open(outp + '.hashes', 'rb') as hf:
                data = hf.read()
            with res.lock:
                for (h,) in struct.iter_unpack('<Q', data[:len(data) // 8 * 8]):
                    res.hashes.add(h)
        except OSError:
            pass
        rc = p.returncode
        if ps.scan:
            try:
                full = open(errp, 'r', errors='replace').read()
            except OSError:
                full = ''
            reps = scan_reports(prop, full)
            with res.lock:
                res.counters['tool-reports-seen'] = res.counters.get('tool-reports-seen', 0) + len(reps)
            for key, snip in reps:
                res.add_viol(key, dict(pass_name=ps.name, case=last_begin if last_begin is not None else start, seed=seed, tier=tier, detail={'report': snip}))
            if done and rc in (0, 66, 99) and not restart:
                rc = 0
        if done and rc == 0 and not restart:
            with res.lock:
                res.cases_run += (b - start)
            break
        if restart and last_begin is not None:
            with res.lock:
                res.cases_run += (last_begin + 1 - start)
            start = last_begin + 1
            continue
        # abnormal end
        try:
            st = open(errp, 'r', errors='replace').read()
        except OSError:
            st = ''
        if last_begin is None:
            res.harness_errors.append('%s/%s: harness died before the first case (rc=%s): %s' % (prop, ps.name, rc, st[-1500:]))
            break
        if hung:
            cnt = rerun_hang.get(last_begin, 0)
            if cnt == 0:
                rerun_hang[last_begin] = 1
                with res.lock:
                    res.cases_run += (last_begin - start)
                start = last_begin   # re-run the same case once
                continue
            key = '%s:hang:%s' % (prop, phase if phase != 'unknown' else ps.mode)
            res.add_viol(key, dict(pass_name=ps.name, case=last_begin, seed=seed, tier=tier, detail={'what': 'no progress for %ds, twice' % ps.stall_s, 'context': ctx}))
        else:
            sig = -rc if rc is not None and rc < 0 else 0
            if done and rc != 0:
                # finished all cases but exit status non-zero (e.g. LSan at exit)
                key, desc = classify_crash(prop, st, sig, 'at-exit')
                res.add_viol(key, dict(pass_name=ps.name, case=last_begin, seed=seed, tier=tier, detail={'what': desc, 'stderr_tail': st[-3000:]}))
                with res.lock:
                    res.cases_run += (b - start)
                break
            key, desc = classify_crash(prop, st, sig, phase)
            res.add_viol(key, dict(pass_name=ps.name, case=last_begin, seed=seed, tier=tier,
                                   detail={'what': desc, 'rc': rc, 'phase': phase, 'context': ctx, 'stderr_tail': st[-14000:]}))
        with res.lock:
            res.cases_run += (last_begin + 1 - start)
        start = last_begin + 1


def run_passes(prop, passes, bins, seed, tier, workers=16, verbose=False, keep_tmp=False):
    res = Result()
    tmpdir = tempfile.mkdtemp(prefix='vf-%s-' % prop, dir=os.environ.get('VERIF_TMP', '/var/tmp'))
    try:
        tasks = []
        for ps in passes:
            n = ps.cases
            if n <= 0:
                continue
            chunk = ps.chunk or max(1, (n + workers * 3 - 1) // (workers * 3))
            a = 0
            while a < n:
                tasks.append((ps, a, min(n, a + chunk)))
                a += chunk
        # longest first is unknown; keep order but interleave passes
        with ThreadPoolExecutor(max_workers=workers) as ex:
            futs = []
            for i, (ps, a, b) in enumerate(tasks):
                futs.append(ex.submit(_run_range, prop, ps, bins[ps.target], seed, tier, a, b, tmpdir, res, i, verbose))
            for f in futs:
                f.result()
    finally:
        if not keep_tmp:
            shutil.rmtree(tmpdir, ignore_errors=True)
        else:
            print('[tmp kept] ' + tmpdir, file=sys.stderr)
    return res


def write_evidence(prop, tier, seed, level, res, rule, wall, assumptions, extra_cov=None, nviol=0, known_hit=None):
    cov = dict(evaluations=int(res.cases_run), distinct_nontrivial=len(res.hashes), rule=rule,
               samples=res.samples[:6], counters=dict(sorted(res.counters.items())))
    if extra_cov:
        cov.update(extra_cov)
    ev = dict(property_id=prop, tier=tier, seed=int(seed), level=level, coverage=cov, assumptions=assumptions,
              wall_s=round(wall, 2), violations=int(nviol), known_findings_hit=known_hit or [])
    os.makedirs(OUTDIR('evidence'), exist_ok=True)
    p = os.path.join(OUTDIR('evidence'), prop + '.json')
    with open(p + '.tmp', 'w') as f:
        json.dump(ev, f, indent=1, default=str)
    os.replace(p + '.tmp', p)
    return p


def report(prop, res, findings):
    """print KNOWN-FINDING / VIOLATION lines, write replay files; returns (nviol, known_hit)"""
    nviol, known_hit = 0, []
    shutil.rmtree(os.path.join(OUTDIR('replays'), prop), ignore_errors=True)
    for key in sorted(res.viol):
        w = res.viol[key]
        k = findings.known(prop, key)
        if k:
            print('KNOWN-FINDING: property=%s %s %s (seen %d times this run)' % (prop, key, k.get('description', ''), res.viol_count[key]))
            known_hit.append(key)
            continue
        d = os.path.join(OUTDIR('replays'), prop)
        os.makedirs(d, exist_ok=True)
        fn = re.sub(r'[^A-Za-z0-9_.-]+', '_', key)[:120] + '.json'
        rp = os.path.join(d, fn)
        with open(rp, 'w') as f:
            json.dump(dict(property=prop, key=key, count=res.viol_count[key], **w), f, indent=1, default=str)
        print('VIOLATION property=%s replay=%s' % (prop, rp))
        print('  key=%s count=%d' % (key, res.viol_count[key]))
        nviol += 1
    return nviol, known_hit
