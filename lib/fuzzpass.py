"""Coverage-guided pass for C07: libFuzzer target harness/fz_read.cpp (clang, ASan+UBSan) run as J independent
processes with their own PRNG seeds over a generated seed corpus.  Bounded by the number of executions, not by time.
Every artifact libFuzzer stores is re-run on its own to obtain the report, which is turned into a finding key the same
way as for the other passes; the input travels inside the witness (base64) so that a replay needs nothing else."""
import base64, glob, os, re, shutil, subprocess, sys, time
from concurrent.futures import ThreadPoolExecutor
from . import drv as D

FUZZ_ARGS = ['-max_len=40000', '-timeout=30', '-rss_limit_mb=4096', '-malloc_limit_mb=3000', '-close_fd_mask=2', '-print_final_stats=1']
ENV = dict(ASAN_OPTIONS='abort_on_error=0:detect_leaks=0:allocator_may_return_null=1', UBSAN_OPTIONS='print_stacktrace=1')


def _run_one(binp, seed, runs, outdir, seeds, art, log):
    cmd = [binp, '-seed=%d' % seed, '-runs=%d' % runs] + FUZZ_ARGS + ['-artifact_prefix=' + art + '/', outdir, seeds]
    env = dict(os.environ); env.update(ENV)
    with open(log, 'wb') as f:
        try:
            p = subprocess.run(cmd, stdout=f, stderr=subprocess.STDOUT, env=env, timeout=3 * 3600)
            return p.returncode
        except subprocess.TimeoutExpired:
            return -999


def classify_artifact(prop, binp, path):
    """re-run one stored input; -> (key, report text) or (None, text) if it does not reproduce"""
    env = dict(os.environ); env.update(ENV)
    try:
        p = subprocess.run([binp, '-timeout=60', '-rss_limit_mb=4096', '-malloc_limit_mb=3000', path], stdout=subprocess.PIPE, stderr=subprocess.STDOUT, env=env, timeout=300)
        text = p.stdout.decode(errors='replace')
        rc = p.returncode
    except subprocess.TimeoutExpired:
        return '%s:fuzz:hang:read_fits_mem' % prop, 'no result within 300 s'
    m = re.search(r'VF-VIOLATION (\S+)', text)
    if m:
        return m.group(1), text
    if rc == 0:
        return None, text
    if 'out-of-memory' in text or 'libFuzzer: out-of-memory' in text:
        return '%s:fuzz:asan-oom:read_fits_mem' % prop, text
    if 'libFuzzer: timeout' in text:
        return '%s:fuzz:hang:read_fits_mem' % prop, text
    key, _ = D.classify_crash(prop, text, 0, 'fuzz:read_fits_mem')
    return key, text


def run(a, res, bins, prop='C07'):
    quick = a.tier != 'thorough'
    jobs = 8 if quick else 16
    runs = int((12000 if quick else 300000) * a.scale)
    binp = bins['fz_read.fuzz']
    tmp = '/var/tmp/vf-fuzz-%d' % os.getpid()
    shutil.rmtree(tmp, ignore_errors=True)
    seeds = os.path.join(tmp, 'seeds'); os.makedirs(seeds)
    t0 = time.time()
    try:
        # seed corpus from the structure-aware generator (valid tables of both independent writers + one mutant each)
        subprocess.run([bins['h_fits.prod'], 'C07corpus', '--seed', str(a.seed), '--tier', a.tier, '--from', '0', '--to', '40', '--out', os.path.join(tmp, 'corpus.jsonl'), '--tmp', seeds],
                       stdout=subprocess.DEVNULL, stderr=subprocess.DEVNULL, timeout=600)
        nseed = len(os.listdir(seeds))
        if nseed < 60:
            res.harness_errors.append('fuzz pass: seed corpus has only %d files' % nseed)
            return
        res.counters['fuzz:seed-corpus-files'] = nseed
        def job(j):
            o = os.path.join(tmp, 'out%d' % j); art = os.path.join(tmp, 'art%d' % j); os.makedirs(o); os.makedirs(art)
            return _run_one(binp, a.seed * 1000 + j + 1, runs, o, seeds, art, os.path.join(tmp, 'log%d' % j))
        with ThreadPoolExecutor(max_workers=jobs) as ex:
            rcs = list(ex.map(job, range(jobs)))
        res.counters['fuzz:processes'] = jobs
        cov = 0
        for j in range(jobs):
            text = open(os.path.join(tmp, 'log%d' % j), errors='replace').read()
            m = re.findall(r'VF-STAT (.*)', text)
            if m:
                for kv in m[-1].split():
                    k, v = kv.split('=')
                    res.counters['fuzz:' + k] = res.counters.get('fuzz:' + k, 0) + int(v)
            c = re.findall(r'cov: (\d+) ft: (\d+) corp: (\d+)', text)
            if c:
                cov = max(cov, int(c[-1][0]))
                res.counters['max-fuzz:coverage-edges'] = max(res.counters.get('max-fuzz:coverage-edges', 0), int(c[-1][0]))
                res.counters['max-fuzz:features'] = max(res.counters.get('max-fuzz:features', 0), int(c[-1][1]))
                res.counters['fuzz:corpus-units'] = res.counters.get('fuzz:corpus-units', 0) + int(c[-1][2])
            if rcs[j] == -999:
                res.harness_errors.append('fuzz pass: process %d exceeded the wall-clock watchdog (inconclusive)' % j)
            arts = sorted(glob.glob(os.path.join(tmp, 'art%d' % j, '*')))
            if rcs[j] not in (0, -999) and not arts:
                res.harness_errors.append('fuzz pass: process %d exited with %s without an artifact: %s' % (j, rcs[j], text[-600:]))
            for ap in arts:
                key, rep = classify_artifact(prop, binp, ap)
                res.counters['fuzz:artifacts'] = res.counters.get('fuzz:artifacts', 0) + 1
                if key is None:
                    # the process stopped on an input that is harmless on its own: a defect of the harness (e.g. in the mutator) or state carried between
                    # executions - either way this run did not do what it claims
                    res.counters['fuzz:artifacts-not-reproducing'] = res.counters.get('fuzz:artifacts-not-reproducing', 0) + 1
                    res.harness_errors.append('fuzz pass: process %d stopped with an artifact that does not reproduce alone: %s' % (j, text[-800:]))
                    continue
                if ':asan-oom:' in key:   # allocator limits are not verdicts (DESIGN 1); the production pass of h_fits judges those inputs
                    res.counters['asan-allocator-limit-not-judged'] = res.counters.get('asan-allocator-limit-not-judged', 0) + 1
                    continue
                data = open(ap, 'rb').read()
                res.add_viol(key, dict(pass_name='fuzz', case=j, seed=a.seed, tier=a.tier,
                                       detail={'input_base64': base64.b64encode(data).decode(), 'input_bytes': len(data), 'report': rep[-3000:], 'libfuzzer_seed': a.seed * 1000 + j + 1}))
        for j in range(jobs):
            for f in glob.glob(os.path.join(tmp, 'out%d' % j, '*'))[:400]:
                try:
                    res.hashes.add(int(os.path.basename(f)[:15], 16))   # corpus units are named by their SHA1: distinct inputs that reached new coverage
                except ValueError:
                    pass
        res.cases_run += res.counters.get('fuzz:execs', 0)
        res.counters['fuzz:wall-seconds'] = int(time.time() - t0)
    finally:
        shutil.rmtree(tmp, ignore_errors=True)


def replay(bins, w, prop='C07'):
    tmp = '/var/tmp/vf-fuzz-replay-%d' % os.getpid()
    os.makedirs(tmp, exist_ok=True)
    try:
        p = os.path.join(tmp, 'input')
        open(p, 'wb').write(base64.b64decode(w['detail']['input_base64']))
        key, rep = classify_artifact(prop, bins['fz_read.fuzz'], p)
        print(rep[-4000:])
        print('REPRODUCED key=%s' % key)
        return key == w['key']
    finally:
        shutil.rmtree(tmp, ignore_errors=True)
