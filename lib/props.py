"""Per-property configuration: which harness/builds, how many cases per tier, what the evidence says."""
from .drv import Pass

ASSUME_COMMON = [
    'gcc 12 sanitizer runtimes, glibc, cfitsio 4.2.0, CHOLMOD/SPQR/OpenBLAS as installed are trusted',
    'x86-64 SSE2 arithmetic without FMA (repo flags -msse4.2 -mno-avx)',
    'sampled inputs: the verdict is "held on the executions listed", not a proof',
]


def T(harness, variant, **kw):
    d = dict(harness=harness, variant=variant)
    d.update(kw)
    d.setdefault('name', harness.split('.')[0] + '.' + variant)
    return d


def n(tier, q, t, scale=1.0):
    return max(1, int((q if tier == 'quick' else t) * scale))


PROPS = {}


def memcheck_pass(mode, cases):
    """valgrind memcheck over a reduced workload: uninitialised values that reach results or control flow (ASan cannot see those)"""
    p = Pass('memcheck', 'h_eval.plain-g', mode, cases, chunk=1, stall_s=1200,
             wrapper=['valgrind', '-q', '--error-exitcode=99', '--track-origins=yes', '--error-limit=no', '--num-callers=14'])
    p.scan = 'memcheck'
    return p

NOT_APPLICABLE = {}

NOTE_COMMON = 'trusted: gcc-12 ASan/UBSan/TSan runtimes, valgrind, glibc, cfitsio 4.2.0, CHOLMOD 3.0.14, SPQR, OpenBLAS as installed, and the harness itself (its numerical reference is self-checked at start); verdicts are about the executions produced, not all inputs'

# ---------------------------------------------------------------- C01..C05 (h_eval)
PROPS['C01'] = dict(
    level_text='Stratified random exploration: every evaluation entry point is compared with an independent long-double Cox-de Boor reference under ASan/UBSan and in the -O3 production build, on tables/points that force every structural class (margins, knots, neighbours, minimum knot counts, orders 0-5, 1-9 dims). Right level because the property quantifies over a continuous input space: what matters is that each structural class occurs many times with a tolerance tight enough to expose an off-by-one interval, stride or margin shift (errors O(M)) and loose enough never to alarm on rounding.',
    level_note=NOTE_COMMON,
    technique='runtime monitor: independent long-double reference oracle + ASan/UBSan; history-independence differential (table with a random history vs. a fresh load of its observable content, evaluation compared bit for bit)',
    targets=[T('h_eval.cpp', 'asan'), T('h_eval.cpp', 'prod'), T('h_misc.cpp', 'asan')],
    passes=lambda tier, sc: [Pass('asan', 'h_eval.asan', 'C01', n(tier, 480, 2400, sc)),
                             Pass('prod', 'h_eval.prod', 'C01', n(tier, 480, 2400, sc)),
                             # evaluation of a table with a history (evaluated, convolved, permuted, re-read, moved ...) = evaluation of a fresh load of its observable content, bit for bit
                             Pass('hist', 'h_misc.asan', 'C01hist', n(tier, 800, 8000, sc), stall_s=300)],
    level='exploration',
    rule='case = random well-formed table (1-9 dims, orders 0-5, knot strata uniform/irregular/wide-ratio/repeated/clamped, '
         'minimum knot counts forced) x 60-600 points drawn from knot / knot+-ulp / margins / top-of-support / last-knot / interior classes; '
         'each value (float, double, operator(), C) is compared with an independent long-double Cox-de Boor sum; '
         'distinct_nontrivial counts distinct (table,point) pairs with successful lookup and magnitude M>0',
    assumptions=ASSUME_COMMON + ['tolerance = (3*sum(order+2)+block+8)*u*M + block*(ndim+2)*max|c|*eta (running-error bound + gradual-underflow floor)',
                                 'block size capped (4096 quick / 32768 thorough) where the reference is computed'],
    require={'any': {'points-checked': 1000, 'points-in-margin': 100, 'points-on-knot': 100, 'dims-with-minimum-knots': 10, 'hist:judged-evaluation-sets': 500}},
)
PROPS['C02'] = dict(
    level_text='Same exploration as C01 for derivatives: every bitmask (all subsets up to 4 dims), every gradient lane in both precisions and ndsplineeval_deriv with orders 0..order+1 are compared with the exact derivative of the reference on the same polynomial piece; derivatives above the order must be exactly zero.',
    level_note=NOTE_COMMON,
    technique='runtime monitor: exact-derivative reference oracle + ASan/UBSan',
    targets=[T('h_eval.cpp', 'asan'), T('h_eval.cpp', 'prod'), T('h_eval.cpp', 'plain-g')],
    passes=lambda tier, sc: [Pass('asan', 'h_eval.asan', 'C02', n(tier, 140, 2000, sc)),
                             Pass('prod', 'h_eval.prod', 'C02', n(tier, 140, 2000, sc)),
                             memcheck_pass('C02', n(tier, 16, 96, sc))],
    level='exploration',
    rule='case = random table (1-7 dims) x points (as C01) x {every derivative bitmask for ndim<=4, sampled above; every gradient '
         'component in both precisions; ndsplineeval_deriv with per-dimension orders 0..order+1}; compared with the exact derivative of '
         'the long-double reference on the same polynomial piece; derivative above the order must be exactly 0; '
         'distinct_nontrivial counts distinct (table,point,derivative-request) triples',
    assumptions=ASSUME_COMMON + ['derivative orders >= 2 only on strictly increasing knots (as the property allows)'],
    require={'any': {'mask-derivative-checks': 1000, 'gradient-component-checks': 500, 'deriv-above-order-checks': 50,
                     'deriv-order>=2-checks': 100, 'mask-checks-on-order0-axis': 20}},
)
C03_CORES = (['core:coreD_FixedOrder<%s,%d,%d>' % (f, d, o) for f in ('float', 'double') for d in range(1, 9) for o in (2, 3)] +
             ['core:multibasis_coreD_FixedOrder<%s,%d,%d>' % (f, d, o) for f in ('float', 'double') for d in range(1, 8) for o in (2, 3)] +
             ['core:coreD<%s,%d>' % (f, d) for f in ('float', 'double') for d in range(1, 9)] +
             ['core:multibasis_coreD<%s,%d>' % (f, d) for f in ('float', 'double') for d in range(1, 8)] +
             ['core:core<%s>' % f for f in ('float', 'double')] +
             ['core:core_KnownOrder<%s,%s>' % (f, o) for f in ('float', 'double') for o in ('2,2,2,3,2,2', '2,2,2,5,2,2')] +
             ['core:multibasis_core_KnownOrder<%s,%s>' % (f, o) for f in ('float', 'double') for o in ('2,2,2,3,2,2', '2,2,2,5,2,2')])


def c03_post(a, res):
    missing = [c for c in C03_CORES if res.counters.get(c, 0) == 0]
    res.counters['specialisations-required'] = len(C03_CORES)
    res.counters['specialisations-executed'] = len(C03_CORES) - len(missing)
    if missing:
        res.harness_errors.append('H1 core trace: specialisations never executed: ' + ', '.join(missing[:8]))


PROPS['C03'] = dict(
    level_text='Differential exploration: all evaluation paths are run on the same inputs inside one process and compared bit-for-bit, in the templated and the PHOTOSPLINE_NO_EVAL_TEMPLATES production builds and under ASan; hook H1 records which specialised core actually executed and the run is inconclusive unless all 100 required specialisations ran.',
    level_note=NOTE_COMMON,
    technique='runtime differential monitor (bitwise) + core-trace hook',
    targets=[T('h_eval.cpp', 'prod'), T('h_eval.cpp', 'prod-notmpl'), T('h_eval.cpp', 'asan')],
    passes=lambda tier, sc: [Pass('prod', 'h_eval.prod', 'C03', n(tier, 330, 3000, sc)),
                             Pass('prod-notmpl', 'h_eval.prod-notmpl', 'C03', n(tier, 170, 1500, sc)),
                             Pass('asan', 'h_eval.asan', 'C03', n(tier, 100, 600, sc))],
    level='exploration',
    rule='case = table with order pattern (all-k for k=0..5 in 1..9 dims, the two known 6-d patterns, random mixed) x 4-120 points x '
         '{float,double}; all entry points (member, evaluator ndsplineeval/operator(), call operator, C interface) for value, bitmask '
         'derivatives, gradient, ndsplineeval_deriv and centres compared bit-for-bit, the member value once more after all other paths have run (each comparison starts from the default floating-point control state); a fifth of the tables has coefficients of 1e-33..1e-42 so that terms and sums are subnormal in float; distinct_nontrivial counts distinct '
         '(table,point,precision) triples with successful lookup; hook H1 proves which specialised core ran',
    assumptions=ASSUME_COMMON + ['bit identity is a statement about this compiler, flags and target'],
    post=c03_post,
    require={'any': {'comparisons:value': 2000, 'comparisons:gradient': 1000, 'comparisons:value-repeated': 2000,
                     'tables-with-coefficients-near-or-in-the-subnormal-range-of-float': 40}},
)
PROPS['C04'] = dict(
    level_text='Exploration with a complete per-table battery of special coordinates (every knot and both neighbours, infinities, denormals, extremes) against an independent linear-scan oracle; termination decided on logical steps by hook H2.',
    level_note=NOTE_COMMON,
    technique='runtime monitor: linear-scan oracle + step-cap hook + ASan/UBSan',
    targets=[T('h_eval.cpp', 'asan')],
    passes=lambda tier, sc: [Pass('asan', 'h_eval.asan', 'C04', n(tier, 2400, 8000, sc))],
    level='exploration',
    rule='case = 1-3-d table with knot vectors from {unit, repeated, 1e-300, 1e300, ratio 1e12, denormal, clamped}; coordinates = every '
         'knot, both neighbours of every knot, +-inf, +-DBL_MAX, +-0, denormals, beyond both ends, random; success/centre/bracketing '
         'compared with an independent linear scan; call operator compared with evaluation; hook H2 bounds the binary search at 64 steps; '
         'distinct_nontrivial counts distinct (table,coordinate vector) lookups',
    assumptions=ASSUME_COMMON,
    require={'any': {'empty-table-lookups': 10, 'lookups-expected-success': 5000, 'lookups-expected-failure': 1000, 'bracket-checks': 3000, 'nearest-interval-checks': 500}},
)
PROPS['C05'] = dict(
    level_text='Hostile-input exploration under ASan+UBSan with assertions enabled and exact-size heap buffers: arbitrary IEEE bit patterns as coordinates through every entry point of every specialised routine; each case isolated in a worker that is restarted after a crash so one defect never masks another.',
    level_note=NOTE_COMMON,
    technique='sanitizers (ASan+UBSan, asserts) under hostile workload',
    targets=[T('h_eval.cpp', 'asan'), T('h_eval.cpp', 'plain-g')],
    passes=lambda tier, sc: [Pass('asan', 'h_eval.asan', 'C05', n(tier, 480, 6000, sc)),
                             memcheck_pass('C05', n(tier, 16, 96, sc))],
    level='exploration',
    rule='case = well-formed table (minimum knot counts over-represented; every specialised routine) x 30-400 coordinate vectors drawn '
         'from random 64-bit patterns, NaN payloads, infinities, denormals, +-DBL_MAX, knots and neighbours; lookup and, when it succeeds, '
         'every entry point (value, masks, gradient, arbitrary derivative, evaluator objects, call operator, C interface) run under '
         'ASan+UBSan with assertions on and exact-size heap buffers; distinct_nontrivial counts distinct (table,vector) pairs',
    assumptions=ASSUME_COMMON + ['ASan red zones do not see far out-of-bounds reads that land in another live allocation'],
    require={'any': {'vectors': 5000, 'vectors-with-NaN': 500, 'vectors-evaluated': 500, 'gradient-refusals-checked': 5}},
)


# ---------------------------------------------------------------- C06, C07 (h_fits)
import os as _os
from . import build as _B
LEAK_ENV = {'ASAN_OPTIONS': 'abort_on_error=1:detect_leaks=1:handle_abort=0:allocator_may_return_null=1:malloc_context_size=12:max_allocation_size_mb=4096'}
TOOL_EVAL = T('repo:src/tools/eval.cpp', 'asan', name='tool_eval.asan', cinter=False, extra_src=['stubs/hook_stub.cpp'])
TOOL_INSPECT = T('repo:src/tools/inspect.cpp', 'asan', name='tool_inspect.asan', cinter=False, extra_src=['stubs/hook_stub.cpp'])


def c06_passes(tier, sc):
    golden = _os.path.join(_B.VERIF, 'golden', 'digests.txt')
    ng = sum(1 for _ in open(golden)) if _os.path.exists(golden) else 0
    return [Pass('asan', 'h_fits.asan', 'C06', n(tier, 240, 3000, sc)),
            # serialising a table with a history (permuted, convolved, re-read, moved ...) gives the bytes a freshly loaded equal table gives
            Pass('hist', 'h_misc.asan', 'C06hist', n(tier, 400, 4000, sc), stall_s=300),
            # reading and writing with every fresh heap byte pre-filled with one of seven patterns: every observable result as with a clean heap
            Pass('junk', 'h_junk.prod', 'C06junk', n(tier, 300, 3000, sc), stall_s=300),
            Pass('golden', 'h_fits.asan', 'C06golden', ng, args=['--golden', golden, '--datadir', _os.path.join(_B.REPO, 'test', 'test_data')], chunk=max(1, ng))]


PROPS['C06'] = dict(
    level_text='Exploration of the serialisation path with three independent observers: (1) an independent writer (raw cfitsio calls) and a '
               'cfitsio-free encoder produce files in the documented layout that the library must load to exactly the specified arrays; '
               '(2) library write -> library read must reproduce every field bit-for-bit (NaN/inf/-0/denormal coefficients, extents, periods, aux keys), '
               'compare equal and evaluate identically, on disk and in memory; (3) the bytes the library wrote are decoded by a cfitsio-free '
               'decoder that insists on the documented layout. Shipped reference files are compared with committed digests.',
    level_note=NOTE_COMMON,
    technique='runtime monitor: independent FITS encoder/decoder + bitwise round-trip oracle + golden digests + history-independence differential (bytes written by a table with a random history vs. by its freshly loaded twin), under ASan/UBSan; uninitialised-memory independence by intervention (malloc/realloc interposed: identical results for seven fill patterns of fresh heap memory)',
    targets=[T('h_fits.cpp', 'asan'), T('h_misc.cpp', 'asan'), T('h_junk.cpp', 'prod')],
    passes=c06_passes,
    level='exploration',
    rule='case = random table (1-9 dims, pairwise different axis lengths where possible, orders 0-5, special-value coefficients, random extents/periods, '
         '0-40 aux keys; variants legacy single ORDER / no EXTENTS / no PERIOD) pushed through independent-writer->read, write->read (disk or memory) and '
         'write->raw-decode; distinct_nontrivial counts distinct (table,backend) round trips plus shipped files',
    assumptions=ASSUME_COMMON + ['the cfitsio-free decoder implements the documented layout only (IMAGE extensions, BITPIX -32/-64)'],
    require={'any': {'roundtrips-disk': 50, 'roundtrips-memory': 50, 'layout-decodes': 150, 'independent-raw-files-read': 150, 'golden-files': 10,
                     'tables-with-pairwise-different-axes': 100, 'hist:judged-serialisations': 300, 'runs-compared-with-the-clean-heap-run': 1500, 'files-without-EXTENTS': 40, 'files-without-PERIOD-keys': 40}},
)


def c07_passes(tier, sc):
    # tool paths are filled in by the driver from the build result (see check: extra_bins)
    return [Pass('asan', 'h_fits.asan', 'C07', n(tier, 2600, 40000, sc), env=LEAK_ENV, extra_bins={'eval': 'tool_eval.asan', 'inspect': 'tool_inspect.asan'}),
            # same mutants in the production build: judges the cases ASan cannot (requests above its allocator limit abort under ASan, throw bad_alloc here)
            Pass('prod', 'h_fits.prod', 'C07', n(tier, 2600, 40000, sc), env={'VF_RLIMIT_AS_MB': '4096'}),
            # damaged files read with every fresh heap byte pre-filled with one of seven patterns: the same verdict (refused / accepted) and the same table as with a clean heap
            Pass('junk', 'h_junk.prod', 'C07junk', n(tier, 1200, 12000, sc), stall_s=300, env={'VF_RLIMIT_AS_MB': '4096'})]


def c07_post(a, res):
    """coverage-guided pass (libFuzzer): see lib/fuzzpass.py"""
    from . import fuzzpass
    fuzzpass.run(a, res, a.bins)


PROPS['C07'] = dict(
    level_text='Structure-aware fault injection on file contents: valid small tables are re-encoded by a cfitsio-free encoder and mutated '
               '(ORDERn/NAXISn/BITPIX/EXTNAME edits, consistent and inconsistent resizes, dropped/reordered extensions, non-finite/unsorted knots, bit flips, '
               'truncation, non-spline FITS, random bytes); every reader entry point (C++ memory/disk/constructor, C memory/disk, the two CLI tools) is run '
               'under ASan+UBSan+LSan. A failed read must leave an empty, reusable, destructible object and leak nothing; a successful read must satisfy '
               'the well-formedness predicates and survive an evaluation/compare/re-serialise battery. A third, coverage-guided pass runs the same monitor as a '
               'libFuzzer target (clang, ASan+UBSan) on read_fits_mem with a structure-aware custom mutator working on the decoded HDU list (cards, data sizes, extension order) '
               'next to the byte mutations of libFuzzer: 8 x 12 000 executions per quick run, 16 x 300 000 in the thorough tier, from a generated seed corpus.',
    level_note=NOTE_COMMON + '; crashes wholly inside libcfitsio would be reported with their own key',
    technique='fault injection on input bytes (structure-aware mutants and coverage-guided libFuzzer pass) + sanitizers (ASan/UBSan/LSan) + well-formedness oracle; uninitialised-memory independence by intervention (same verdict and table for seven fill patterns of fresh heap memory)',
    targets=[T('h_fits.cpp', 'asan'), T('h_fits.cpp', 'prod'), TOOL_EVAL, TOOL_INSPECT, T('fz_read.cpp', 'fuzz'), T('h_junk.cpp', 'prod')],
    passes=c07_passes,
    post=c07_post,
    level='fault_enumeration',
    rule='case = (valid 1-4-d table, one of 31 mutation kinds with random parameters (incl. data units of negative size), one of 5 reader entry points; every third case also both CLI tools, every second case also estimateMemory on the hostile file; one case in 40 is an untouched well-formed table of order 28-44 whose battery takes second derivatives); '
         'distinct_nontrivial counts distinct mutated byte strings; counters give accepted/rejected per mutation kind',
    assumptions=ASSUME_COMMON,
    require={'any': {'reads-failed': 500, 'reads-succeeded': 150, 'batteries-run': 100, 'reuse-after-failure-checks': 400, 'tool-runs:photospline-eval': 200,
                     'fuzz:execs': 50000, 'fuzz:accepted': 3000, 'fuzz:rejected': 20000, 'fuzz:structured-mutations': 3000, 'max-fuzz:coverage-edges': 700,
                     'runs-compared-with-the-clean-heap-run': 5000, 'reads-accepted': 200, 'reads-refused': 200}},
)


# ---------------------------------------------------------------- C08 (h_write)
def c08_passes(tier, sc):
    ntab = n(tier, 6, 36, sc)
    return [Pass('prod', 'h_write.prod', 'C08', ntab * 32, chunk=1, stall_s=900),
            # one layer further down: the unmodified writer in a child process under `strace -e inject=` (failing / killing system calls on the real file)
            Pass('syscall', 'h_write.prod', 'C08sys', n(tier, 12, 72, sc), chunk=1, stall_s=900)]


PROPS['C08'] = dict(
    level_text='Fault enumeration over the recorded sequence of file operations: the stdio layer under cfitsio is interposed inside the harness, '
               'one successful write_fits of each table is recorded operation by operation (open/write/seek/flush/truncate/close/remove with offsets and bytes); '
               'then (a) the file image after EVERY operation prefix and after byte-granular cuts inside every fwrite is replayed by offset and given to read_fits '
               '(must be rejected or load equal), and (b) write_fits / writesplinefitstable is re-run with EVERY operation failing in turn (short or zero write with '
               'ENOSPC/EFBIG/EIO, transient and persistent; failing flush, close, seek, truncate, open, remove) and may report success only if the file reads back equal; '
               'write_fits_mem gets every position of a failing realloc. Complete over the recorded operation sequence of each table explored. '
               'A second pass checks the same property one layer further down without any interposition: the unmodified writer runs in a child process under '
               'strace -e inject=, each system call on the file (openat, write, lseek, close, unlink) fails in turn with ENOSPC/EIO (once or persistently) or the process is '
               'killed on entering it - a real crash state on the real file system, read back by the parent (sampled per table).',
    level_note=NOTE_COMMON + '; crash states are modelled as prefixes of the stdio operation stream (stdio flushes in stream order and on seek)',
    technique='fault injection by stdio interposition + crash-state replay from a recorded operation log; system-call fault/kill injection with strace on the unmodified writer',
    targets=[T('h_write.cpp', 'prod')],
    passes=c08_passes,
    level='fault_enumeration',
    rule='case = (table of 1-5 dims whose coefficient data spans ~1,2,9,41,42,300 FITS blocks, 1/16 slice of its crash states or of its fault sequences); '
         'crash states = all operation prefixes + block/card boundary +-1 and random byte cuts inside each fwrite; fault sequences = every operation index x applicable fault kinds; '
         'the syscall-level pass runs the unmodified writer as a child under strace fault injection (write/lseek/read/close/openat/unlink errors, SIGKILL), one table in four written to a .gz name, one in six with 1450 auxiliary keys; '
         'distinct_nontrivial counts distinct (table, state) and (table, op, fault) pairs',
    assumptions=ASSUME_COMMON + ['a crash leaves a prefix of the stdio operation stream on disk (no reordering below stdio)'],
    require={'any': {'crash-states': 500, 'crash-states-rejected': 300, 'faults-fired': 100, 'writes-reporting-failure': 80, 'realloc-faults-injected': 5, 'syscall-level:faults-fired': 80, 'syscall-level:crash-states': 15, 'syscall-level:writes-reporting-failure': 30}},
)


# ---------------------------------------------------------------- C11 (h_nnls)
PROPS['C11'] = dict(
    level_text='Exploration against two oracles: for n <= 12 the unique constrained minimiser is found by enumerating all 2^n active sets in long double '
               '(plus lambda_min by Jacobi), and for every n the Karush-Kuhn-Tucker residual is evaluated in long double. All four exported solvers '
               '(Lawson-Hanson in both input forms) run on random, banded, degenerate (ties built backwards from a chosen solution) and badly scaled systems, '
               'in the production build and under ASan/UBSan; a solver that hangs, calls exit() or returns NULL is a violation.',
    level_note=NOTE_COMMON + '; the absolute tolerances of the solvers (KKT_TOL 1e-6, n*eps*1e5, the tolerance argument) are taken as stated',
    technique='runtime monitor: brute-force active-set oracle + KKT residual oracle, under ASan/UBSan',
    targets=[T('h_nnls.cpp', 'prod'), T('h_nnls.cpp', 'asan')],
    passes=lambda tier, sc: [Pass('prod', 'h_nnls.prod', 'C11', n(tier, 640, 20000, sc), stall_s=180),
                             Pass('asan', 'h_nnls.asan', 'C11', n(tier, 160, 2000, sc), stall_s=300)],
    level='exploration',
    rule='case = one symmetric positive-definite system (3 of 4 with n in 2..12 and an enumerated optimum, 1 of 4 sparse with n in 20..300) solved by each solver; '
         'about one system in six is handed over with every variable in a unit of its own (D A0 D, D b0 with D_i = 2^k, |k| up to 27) and judged by (A0, b0) with the stated tolerances converted; '
         'distinct_nontrivial counts distinct (system, solver) pairs',
    assumptions=ASSUME_COMMON + ['tolerance on the gradient: stated dual tolerance + 64 n eps (|A||x|+|b|); distance bound 4 sqrt(n)(tau+|A| t)/lambda_min'],
    require={'any': {'oracle-solutions': 200, 'problems-degenerate': 50, 'problems-large(KKT-only)': 50, 'solves:nnls_normal_block3': 300, 'solves:nnls_lawson_hanson(ls)': 50, 'problems-with-a-unit-per-variable': 40, 'small-stack-solves:nnls_normal_block': 2, 'small-stack-solves:nnls_normal_block3': 2}},
)


# ---------------------------------------------------------------- C09, C10, C13 (h_fit)
PROPS['C09'] = dict(
    level_text='Exploration against an oracle built from the definition: the penalised normal matrix H = sum_k w_k b_k b_k^T + sum_d lambda_d (I x D_p^T D_p x I) and '
               'right-hand side r are assembled point by point in long double (no GLAM/Kronecker shortcut, exact B-spline derivative-coefficient maps), and the returned '
               'float coefficients must satisfy the normal equations to a backward error of 8*2^-24(|H||c|+|r|) - a conditioning-independent test - for C++ fit, '
               'fit with permuted listing order plus zero-weight entries, and the C wrapper; plus reproduction of spline-generated data at zero smoothing and of polynomials below the penalty order. '
               'A third pass fits tables with more than 2^16 coefficients (2-d ~250x270, 3-d ~40^3; flattened matrix indices beyond 2^32), where the same residual is applied matrix-free, dimension by dimension. '
               'Smoothing and penalty order are passed in all four shared/per-dimension combinations.',
    level_note=NOTE_COMMON + '; problems whose oracle Cholesky pivot ratio is below 1e-9 are outside the quantifier ("well-posed") and skipped',
    technique='runtime monitor: dense (small tables) and matrix-free (large tables) normal-equation oracle (backward-error test) under ASan/UBSan and in the production build; uninitialised-memory independence by intervention (malloc/realloc interposed: identical results for seven fill patterns of fresh heap memory)',
    targets=[T('h_fit.cpp', 'prod'), T('h_fit.cpp', 'asan'), T('h_junk.cpp', 'prod')],
    passes=lambda tier, sc: [Pass('prod', 'h_fit.prod', 'C09', n(tier, 160, 2400, sc), stall_s=300),
                             # the same fit with every fresh heap byte (C++ side, C fitter, CHOLMOD) pre-filled with one of five patterns: identical table
                             Pass('junk', 'h_junk.prod', 'C09junk', n(tier, 160, 1600, sc), stall_s=600),
                             Pass('asan', 'h_fit.asan', 'C09', n(tier, 48, 400, sc), stall_s=600),
                             # tables with more than 2^16 coefficients (flattened matrix indices beyond 2^32); matrix-free residual oracle
                             Pass('large', 'h_fit.prod', 'C09big', n(tier, 3, 18, sc), chunk=1, stall_s=900)],
    level='exploration',
    rule='case = random fit problem (1-4 dims, orders 0-4, penalty orders 0..order, irregular strictly increasing knots, irregular/unsorted abscissae incl. on-knot, '
         'dense or 30-70% sparse grids, weights 1e-3..1e3, smoothing 0 or 1e-6..1e6, scalar or per-dimension arguments) x 3 entry-point variants; '
         'distinct_nontrivial counts distinct (problem, variant) fits on well-posed problems',
    assumptions=ASSUME_COMMON + ['bound K=8 on |Hc-r|/(2^-24(|H||c|+|r|)) (probe: worst 0.77 on 150 fits)'],
    require={'any': {'problems-well-posed': 80, 'fits:C:splinetable_glamfit': 50, 'spline-reproduction-checks': 5, 'polynomial-reproduction-checks': 3, 'large:residual-checks': 3, 'argument-form:smoothing-shared,penalty-order-per-dimension': 8, 'argument-form:smoothing-per-dimension,penalty-order-shared': 8, 'runs-compared-with-the-clean-heap-run': 600}},
)
PROPS['C10'] = dict(
    level_text='Exploration: monotonic fits of noisy, decreasing, oscillating, constant and random data in 1-3 dimensions for every choice of monotonic dimension; '
               'the monitor checks (i) exact non-decrease of the returned float coefficients along that dimension, (ii) a non-negative reference derivative of the returned table at sampled points of full support, '
               '(iii) agreement with the unconstrained fit when the data come from a strictly monotone positive spline (constraint inactive); thread creations are counted to show the parallel line search was reached.',
    level_note=NOTE_COMMON,
    technique='runtime monitor: order/derivative invariants on returned tables + differential check against the unconstrained fit, under ASan/UBSan',
    targets=[T('h_fit.cpp', 'prod'), T('h_fit.cpp', 'asan')],
    passes=lambda tier, sc: [Pass('prod', 'h_fit.prod', 'C10', n(tier, 600, 3000, sc), stall_s=300, env={'OMP_NUM_THREADS': '3'}),
                             Pass('asan', 'h_fit.asan', 'C10', n(tier, 60, 500, sc), stall_s=600, env={'OMP_NUM_THREADS': '2'}),
                             # tables of 1300-4500 coefficients on data with shallow dips: solver tolerances that grow with the system size
                             Pass('large', 'h_fit.prod', 'C10big', n(tier, 6, 40, sc), chunk=1, stall_s=900, env={'OMP_NUM_THREADS': '3'})],
    level='exploration',
    rule='case = (random problem of 1-3 dims with orders 1-4, monotonic dimension, data kind in {noisy increasing, decreasing, oscillating, constant, gaussian noise, '
         'from-monotone-spline}); distinct_nontrivial counts distinct (problem, monodim) monotonic fits',
    assumptions=ASSUME_COMMON,
    require={'any': {'monotonic-fits': 150, 'fits-that-reached-the-parallel-line-search': 5, 'inactive-constraint-comparisons': 5, 'derivative-points-checked': 3000, 'large-monotonic-fits': 5}},
)
PROPS['C13'] = dict(
    level_text='Fault injection on the argument tuple: valid 1-3-d problems get one or two corruptions from the cross product in the property (counts off by one or empty, index outside its range, '
               'coordinate vector shorter than the declared range, unsorted / too few knots, huge orders, penalty order above the order, monodim out of range); every array is handed over as a view onto an '
               'exact-size heap block so ASan sees any over-read. Must-reject tuples must throw and leave an empty or previously fitted table unchanged (snapshot through every getter); all tuples must be '
               'memory-safe; the C wrapper must return non-zero. Same tuples again in the production build under RLIMIT_AS where ASan hits its allocator limit.',
    level_note=NOTE_COMMON,
    technique='fault injection on arguments + ASan/UBSan + state-snapshot oracle',
    targets=[T('h_fit.cpp', 'asan'), T('h_fit.cpp', 'prod')],
    passes=lambda tier, sc: [Pass('asan', 'h_fit.asan', 'C13', n(tier, 1500, 30000, sc), stall_s=300),
                             Pass('prod', 'h_fit.prod', 'C13', n(tier, 1500, 30000, sc), stall_s=300, env={'VF_RLIMIT_AS_MB': '6000'})],
    level='fault_enumeration',
    rule='case = (valid base problem, 0-2 corruptions out of 27 kinds incl. non-finite knots, ill-posed monotonic tuples and negative / NaN smoothing strengths and weights) fitted into an empty and into a populated table and through the C wrapper; '
         'distinct_nontrivial counts distinct (case, corruption set) tuples',
    assumptions=ASSUME_COMMON,
    require={'any': {'tuples-must-reject': 500, 'tuples-may-complete': 200, 'fits-into-populated-table': 500, 'C-wrapper-calls': 300, 'high-order-consistent-requests': 40, 'consistent-requests-in-5-or-6-dimensions': 40}},
)


# ---------------------------------------------------------------- C12 (h_sched + tsan/helgrind passes)
SHIM = _os.path.join(_B.VERIF, 'harness', 'sched', 'vf_sched_shim.h')
T_SCHED = T('h_sched.cpp', 'prod', name='h_sched.prod', extra_src=['sched/vf_sched.c'], fitter_flags=['-include', SHIM])


DSHIM = _os.path.join(_B.VERIF, 'harness', 'sched', 'vf_delay_shim.h')
T_THR_TSAN = T('h_thr.cpp', 'tsan', name='h_thr.tsan', fitter_flags=['-include', DSHIM])
T_THR_PLAIN = T('h_thr.cpp', 'plain-g', name='h_thr.plain-g', fitter_flags=['-include', DSHIM])
T_THR_PROD = T('h_thr.cpp', 'prod', name='h_thr.prod', fitter_flags=['-include', DSHIM])


def c12_passes(tier, sc):
    ncfg, NP, NSH = 16, (6 if tier == 'thorough' else 2), (12 if tier == 'thorough' else 4)
    ps = [Pass('sched', 'h_sched.prod', 'C12', int(ncfg * NP * NSH), chunk=1, stall_s=600)]
    t = Pass('tsan', 'h_thr.tsan', 'C12thr', n(tier, 48, 600, sc), chunk=3, stall_s=600)
    t.scan = 'tsan'
    ps.append(t)
    h = Pass('helgrind', 'h_thr.plain-g', 'C12thr', n(tier, 4, 24, sc), chunk=1, stall_s=1200, args=['--maxworkers', '3'],
             wrapper=['valgrind', '--tool=helgrind', '-q', '--error-limit=no', '--history-level=approx', '--num-callers=12'])
    h.scan = 'helgrind'
    ps.append(h)
    # worker counts 1..32 on real fits (production build; BLAS and OpenMP pinned to one thread, only the library's own worker count varies)
    ps.append(Pass('workers', 'h_thr.prod', 'C12fit', n(tier, 12, 96, sc), chunk=1, stall_s=900,
                   env={'OPENBLAS_NUM_THREADS': '1', 'OMP_NUM_THREADS': '1', 'GOTO_NUM_THREADS': '1'}))
    return ps


PROPS['C12'] = dict(
    level_text='The real walk_descents()/evaluate_descent() code runs under a user-level controlled scheduler substituted for its pthread calls at compile time: every '
               'mutex / condition-variable / create / join / exit call is a scheduling point. Per configuration (1-5 workers x 2-7 trial steps, i.e. 1-7 blocks, incl. more workers than steps) '
               'all schedules with at most 1 (quick) / 2 (thorough) preemptions and 2/3 deviations at blocking points are enumerated breadth-first, plus random-walk and PCT-style priority schedules with '
               'injected spurious wake-ups. Deadlock is decided (no enabled thread), protocol errors (unlock by non-owner, wait without mutex, destroy with waiters, exit holding a mutex) are assertions, '
               'and every schedule must return x, H1, residual and the return value bit-identical to the single-worker run. Real-thread passes under ThreadSanitizer and helgrind with injected delays complement it, and a production-build pass repeats real monotonic fits through splinetable::fit '
               'with 1, 2, 3, 5, 8 and 32 workers (BLAS and OpenMP pinned to one thread) and compares the float coefficients bit for bit; a difference is attributed by intervention '
               '(hook H4 fixes the worker count seen by modify_factor\'s cost model while the pool keeps its size) before it is keyed.',
    level_note=NOTE_COMMON + '; exhaustive only up to the stated preemption bound; OpenBLAS/CHOLMOD internals are single-threaded by configuration',
    technique='controlled (systematic + randomized) scheduler over the real synchronisation code + TSan/helgrind with delay injection + differential monitor over worker counts on real fits (attribution by intervention through a hook)',
    targets=[T_SCHED, T_THR_TSAN, T_THR_PLAIN, T_THR_PROD],
    passes=c12_passes,
    level='exploration',
    rule='case = (configuration, problem seed, shard): shard 0 = bounded systematic enumeration of schedules by prefix replay, other shards = 120-400 random/PCT schedules; '
         'distinct_nontrivial counts distinct executed schedules (hash of the full choice sequence) that ran to completion or to a decided deadlock',
    assumptions=ASSUME_COMMON + ['scheduling granularity = pthread synchronisation calls; data accesses between them are serialised by the baton (data races are the business of the TSan/helgrind passes)'],
    require={'any': {'distinct-schedules': 3000, 'systematic-explorations-complete': 4, 'configurations': 16, 'schedules:pct': 500,
                     'real-fits:worker-count-comparisons': 40, 'real-fits:problems-that-reached-the-parallel-line-search': 6}},
)


# ---------------------------------------------------------------- C14, C15, C17 (h_misc)
def c14_tsan(tier, sc):
    p = Pass('tsan', 'h_misc.tsan', 'C14thr', n(tier, 60, 400, sc), chunk=4, stall_s=600, env={'TSAN_OPTIONS': 'halt_on_error=0:report_signal_unsafe=0'})
    p.scan = 'tool'
    return p


def c17_tsan(tier, sc):
    p = Pass('tsan', 'h_misc.tsan', 'C17thr', n(tier, 60, 400, sc), chunk=4, stall_s=600, env={'TSAN_OPTIONS': 'halt_on_error=0:report_signal_unsafe=0'})
    p.scan = 'tool'
    return p


PROPS['C14'] = dict(
    level_text='Exploration against a quadrature oracle: the convolution integral of the ORIGINAL table (long-double reference evaluation) with the unit-area kernel B-spline is integrated '
               'piecewise between all breakpoints with 8-point Gauss-Legendre (exact for the polynomial degrees involved) and compared with the evaluated convolved table at points across '
               'the new knot range incl. knots and margins; plus exact checks of the new order, the new knot vector (sorted pairwise sums), untouched other dimensions, well-formedness and the C wrapper.',
    level_note=NOTE_COMMON + '; bound K=400 on |lib-integral|/(2^-24 M) fixed from the measured error distribution (see errratio counters)',
    technique='runtime monitor: quadrature oracle for the convolution integral + structural invariants, under ASan/UBSan; history-independence differential (convolution of a table with a random history vs. of its freshly loaded twin, bit for bit); concurrent independent convolutions compared with sequential ones, under ThreadSanitizer; uninitialised-memory independence by intervention (malloc/realloc interposed: identical results for seven fill patterns of fresh heap memory)',
    targets=[T('h_misc.cpp', 'asan'), T('h_misc.cpp', 'prod'), T('h_misc.cpp', 'tsan'), T('h_junk.cpp', 'prod')],
    passes=lambda tier, sc: [Pass('junk', 'h_junk.prod', 'C14junk', n(tier, 200, 2000, sc), stall_s=300),
                             Pass('asan', 'h_misc.asan', 'C14', n(tier, 360, 1500, sc), stall_s=300),
                             Pass('prod', 'h_misc.prod', 'C14', n(tier, 900, 3000, sc), stall_s=300),
                             # four threads convolving their own tables at once: same result as sequentially (prod) and no report from ThreadSanitizer
                             Pass('thr', 'h_misc.prod', 'C14thr', n(tier, 200, 1500, sc), stall_s=300),
                             # the convolution of a table with a history (permuted, convolved, re-read, moved ...) = the convolution of a freshly loaded equal table, bit for bit
                             Pass('hist', 'h_misc.asan', 'C14hist', n(tier, 400, 4000, sc), stall_s=300),
                             c14_tsan(tier, sc)],
    level='exploration',
    rule='case = (table of 1-4 dims, order 0-5 in the convolved dimension, any dimension index, irregular knots, kernel of 2-6 increasing knots, symmetric or not, 0.05x-5x the knot spacing) x 10-60 points; '
         'distinct_nontrivial counts distinct (table, kernel, point) triples with M>0',
    assumptions=ASSUME_COMMON,
    require={'any': {'points-checked': 1500, 'C-wrapper-comparisons': 100, 'order:0': 5, 'order:5': 5, 'concurrent-convolution-rounds': 150, 'axis-unit:1e-09': 20, 'aliasing-kernel-comparisons': 40, 'hist:judged-convolutions': 200, 'runs-compared-with-the-clean-heap-run': 1000, 'tables-with-geometrically-graded-knots-in-the-convolved-dimension': 60, 'tables-with-commensurate-inexact-knots-and-kernel': 15}},
)
PROPS['C15'] = dict(
    level_text='Exhaustive over all 153 permutations of 1-5 dimensions (plus sampled 6-d ones) on tables whose axes have pairwise different lengths, orders, extents and periods: every per-dimension attribute, '
               'exact relocation of every coefficient, stride consistency, evaluation at permuted points against the reference, restoration by the inverse permutation, rejection of every malformed-argument shape '
               'with the table unchanged, and the C wrapper.',
    level_note=NOTE_COMMON,
    technique='runtime monitor: exhaustive permutation enumeration (<=5 dims) with exact relocation oracle, plus history-independence differential (permutation of a table with a random history vs. of its freshly loaded twin, bit for bit), under ASan/UBSan; uninitialised-memory independence by intervention (malloc/realloc interposed: identical results for seven fill patterns of fresh heap memory)',
    targets=[T('h_misc.cpp', 'asan'), T('h_junk.cpp', 'prod')],
    passes=lambda tier, sc: [Pass('junk', 'h_junk.prod', 'C15junk', n(tier, 200, 2000, sc), stall_s=300),
                             Pass('asan', 'h_misc.asan', 'C15', 153 + n(tier, 300, 1200, sc), stall_s=300),
                             # permuting a table with a history = permuting a freshly loaded equal table, bit for bit (incl. extents, periods, strides, aux keys, evaluation)
                             Pass('hist', 'h_misc.asan', 'C15hist', n(tier, 600, 6000, sc), stall_s=300)],
    level='exploration',
    rule='case = one permutation (cases 0..152 enumerate all permutations of 1..5 dimensions, the rest are random 6-d permutations) applied to a fresh table; distinct_nontrivial counts distinct permutations',
    assumptions=ASSUME_COMMON,
    require={'any': {'permutations': 153, 'inverse-checks': 153, 'malformed-arguments-tried': 800, 'C-wrapper-comparisons': 153, 'hist:judged-permutations': 400, 'runs-compared-with-the-clean-heap-run': 1000}},
)
PROPS['C17'] = dict(
    level_text='Exploration: grid evaluation of sparse-coefficient tables (50-95% exact zeros, whole zero edge hyperplanes) on arbitrary grids (unsorted, repeated, outside, on-knot, single-point axes) compared entry by entry '
               'with pointwise evaluation and with the long-double reference (so a disagreement is attributed to the side that is wrong); index ranges, index bounds, duplicates and unlisted points are checked; C wrapper compared bitwise.',
    level_note=NOTE_COMMON,
    technique='runtime differential monitor (grid vs pointwise vs reference), under ASan/UBSan; history-independence differential (grid evaluation of a table with a random history vs. of its freshly loaded twin); concurrent independent grid evaluations compared with sequential ones, under ThreadSanitizer; uninitialised-memory independence by intervention (malloc/realloc interposed: identical results for seven fill patterns of fresh heap memory)',
    targets=[T('h_misc.cpp', 'asan'), T('h_misc.cpp', 'prod'), T('h_misc.cpp', 'tsan'), T('h_junk.cpp', 'prod')],
    passes=lambda tier, sc: [Pass('junk', 'h_junk.prod', 'C17junk', n(tier, 200, 2000, sc), stall_s=300),
                             Pass('asan', 'h_misc.asan', 'C17', n(tier, 3000, 12000, sc), stall_s=300),
                             Pass('thr', 'h_misc.prod', 'C17thr', n(tier, 200, 1500, sc), stall_s=300),
                             Pass('hist', 'h_misc.asan', 'C17hist', n(tier, 400, 4000, sc), stall_s=300),
                             c17_tsan(tier, sc)],
    level='exploration',
    rule='case = (sparse table of 1-4 dims with mixed orders 0-4 and repeated knots, grid) ; every grid point strictly inside the knot range is judged; distinct_nontrivial counts distinct (table, grid point) pairs judged',
    assumptions=ASSUME_COMMON,
    require={'any': {'grid-points-checked': 3000, 'grid-points-unlisted': 100, 'tables-with-zero-edge-hyperplanes': 50, 'C-wrapper-comparisons': 200, 'concurrent-grideval-rounds': 150, 'long-grids': 5, 'tables-with-all-coefficients-zero': 30, 'hist:judged-grid-evaluations': 300, 'runs-compared-with-the-clean-heap-run': 1000, 'axis-unit:1.60218e-19': 20}},
)


# ---------------------------------------------------------------- C16 (h_aux)
PROPS['C16'] = dict(
    level_text='Model-based exploration: random histories of up to ~40 insertions (int/double/string, C++ and C), overwrites, removals, lookups, typed reads and FITS round trips (disk and memory, the object being replaced by what was read) '
               'over a 35-key alphabet (short, 8-character, HIERARCH-length, reserved prefixes, lower-case, punctuated, empty, END/HISTORY/CONTINUE/BSCALE/...) are replayed against an insertion-ordered list model; '
               'after every operation the whole store is compared with the model; must-reject inputs must throw and leave the store unchanged; every accepted entry must survive serialisation; LeakSanitizer per history.',
    level_note=NOTE_COMMON + '; typed reads are judged against stream extraction / strtod of the stored string',
    technique='runtime monitor: abstract ordered-map model replayed against the real store, under ASan/UBSan/LSan; uninitialised-memory independence by intervention (identical results for seven fill patterns of fresh heap memory)',
    targets=[T('h_aux.cpp', 'asan'), T('h_junk.cpp', 'prod')],
    passes=lambda tier, sc: [Pass('junk', 'h_junk.prod', 'C16junk', n(tier, 250, 2500, sc), stall_s=300),
                             Pass('asan', 'h_aux.asan', 'C16', n(tier, 1500, 10000, sc), env=LEAK_ENV, stall_s=300)],
    level='exploration',
    rule='case = one history of 5-40 operations on one table; distinct_nontrivial counts distinct histories (hash of the (operation, key) sequence)',
    assumptions=ASSUME_COMMON,
    require={'any': {'runs-compared-with-the-clean-heap-run': 1200, 'writes-accepted': 800, 'writes-rejected': 500, 'ops:roundtrip': 800, 'ops:remove': 300, 'ops:read': 500, 'keys-spelled-in-another-case-than-a-present-key': 200}},
)


# ---------------------------------------------------------------- C18 (h_cinter)
PROPS['C18'] = dict(
    level_text='Differential exploration of call sequences: random sequences of up to 30 C calls over 1-3 handles (init, read from disk/memory good/truncated/missing incl. into an occupied handle, write, key access, accessors, '
               'lookup and evaluation, convolve, permute, fit with good and bad arguments, grid evaluation, free, and guarded calls on handles without data), each shadowed by a C++ twin: the return code must be 0 iff the twin did '
               'not throw, every returned number/string/array/file must be bit-equal, the C-side table must equal the twin after every call, no exception may cross the C boundary, and LeakSanitizer must be silent after all handles are freed.',
    level_note=NOTE_COMMON + '; unguarded accessors are only called on handles that hold a table (documented precondition)',
    technique='runtime differential monitor (C wrapper vs C++ twin) over random call histories, under ASan/UBSan/LSan',
    targets=[T('h_cinter.cpp', 'asan')],
    passes=lambda tier, sc: [Pass('asan', 'h_cinter.asan', 'C18', n(tier, 1200, 10000, sc), env=LEAK_ENV, stall_s=300)],
    level='exploration',
    rule='case = one call sequence; distinct_nontrivial counts distinct sequences (hash of the (call kind, handle) sequence)',
    assumptions=ASSUME_COMMON,
    require={'any': {'calls:readsplinefitstable': 300, 'calls:splinetable_glamfit': 200, 'calls:splinetable_convolve': 50, 'calls:evaluation': 100, 'calls:on-null-data-handle': 50, 'calls:splinetable_free': 100, 'get_key:results-re-examined-after-fetching-other-keys': 10, 'calls:splinetable_grideval:too-long-for-the-index-type': 3}},
)


# ---------------------------------------------------------------- C19, C20 (h_mem)
PROPS['C19'] = dict(
    level_text='Exploration with a byte-counting allocator passed through the Alloc template parameter: live bytes are booked from the allocator\'s own pointer->size ledger, the peak is taken over construction '
               'from the file plus the declared convolution, and compared with estimateMemory(path, n, dim). Files of 1-6 dimensions with mixed orders, 0-50 auxiliary keys of all lengths (incl. maximal), long knot vectors, '
               'with and without EXTENTS/PERIOD, and KNOTSn extensions stored out of index order; evidence reports the minimum and distribution of the slack so erosion is visible before it becomes a violation.',
    level_note=NOTE_COMMON + '; bytes requested are counted, not allocator fragmentation or alignment overhead (as the property is worded)',
    technique='runtime monitor: byte-counting allocator (template parameter) vs estimateMemory; uninitialised-memory independence by intervention (identical results for seven fill patterns of fresh heap memory)',
    targets=[T('h_mem.cpp', 'prod'), T('h_mem.cpp', 'asan'), T('h_junk.cpp', 'prod')],
    passes=lambda tier, sc: [Pass('junk', 'h_junk.prod', 'C19junk', n(tier, 250, 2500, sc), stall_s=300),
                             Pass('prod', 'h_mem.prod', 'C19', n(tier, 320, 5000, sc), stall_s=300),
                             Pass('asan', 'h_mem.asan', 'C19', n(tier, 60, 400, sc), stall_s=600)],
    level='exploration',
    rule='case = (table file, up to 5 declarations: no convolution and convolutions with 2-8 kernel knots in sampled dimensions); distinct_nontrivial counts distinct (file, declaration) pairs measured',
    assumptions=ASSUME_COMMON,
    require={'any': {'runs-compared-with-the-clean-heap-run': 1200, 'declarations-checked': 600, 'declarations-with-convolution': 300, 'files-with-knot-extensions-out-of-order': 40, 'files-with-a-long-knot-vector': 40}},
)
PROPS['C20'] = dict(
    level_text='Model-based exploration plus fault enumeration: histories of 6-25 operations over 1-3 objects drawn from the whole public API with valid and invalid arguments (construct, path-construct good/bad, read good/truncated/missing into empty '
               'and populated tables, fit good/bad, key edits, convolve, permute valid/invalid, move construction/assignment, comparison, write, getters+evaluation, grid evaluation, destroy) run with a checking allocator whose ledger (zero-length blocks included) detects leaks, double frees and '
               'foreign pointers; in half of the histories every object has its own arena (allocator instances that compare unequal), so a block returned to another arena than it came from is an error, and a third of the histories read files without auxiliary keys; after every operation the observable state is compared with the expectation (failed operation: unchanged or empty; populated table never silently overwritten; moved-from empty). Each history is then re-run with the k-th allocation '
               'through the table\'s allocator throwing bad_alloc, for every k (sampled to 60 per history in the quick tier), transient and persistent, and once more with the k-th call of the global operator new made '
               'inside a library call throwing (temporaries of permuteDimensions, convolve, the stacking constructor, string streams; sampled to 40 per history); LeakSanitizer covers memory outside the allocator. '
               'The histories include the stacking constructor (valid and invalid requests; a stack of identical tables must be constant along the new dimension).',
    level_note=NOTE_COMMON + '',
    technique='runtime monitor: checking allocator ledger + abstract state model + allocation-failure enumeration, under ASan/UBSan/LSan',
    targets=[T('h_mem.cpp', 'asan'), T('h_write.cpp', 'prod')],
    passes=lambda tier, sc: [Pass('asan', 'h_mem.asan', 'C20', n(tier, 320, 3000, sc), env=LEAK_ENV, stall_s=600),
                             # every position of a failing read: fread interposed under cfitsio (same mechanism as C08)
                             Pass('readfault', 'h_write.prod', 'C20read', n(tier, 36, 360, sc), chunk=1, stall_s=600)],
    level='fault_enumeration',
    rule='case = one history, executed once without faults and then once per sampled allocation index with that allocation failing; distinct_nontrivial counts distinct executed (history, fault position) pairs',
    assumptions=ASSUME_COMMON,
    require={'any': {'histories': 100, 'faulted-histories': 2000, 'faults-fired': 1500, 'histories-with-one-arena-per-object': 30, 'operator-new-faults-fired': 1500, 'stacked-table-evaluations': 300, 'read-fault:faults-fired': 800, 'read-fault:reads-reporting-failure': 500, 'move-assignments-between-arenas:storage-held': 8, 'write_key:first-key-on-a-populated-table-without-keys': 2}},
)


def all_targets():
    seen, out = set(), []
    for p in PROPS.values():
        for t in p.get('targets', []):
            k = (t['name'])
            if k not in seen:
                seen.add(k)
                out.append(t)
    return out
