#!/bin/bash
# Builds /repo with the verification guard OFF (plain CMake, as the baseline does) in a scratch directory outside
# /repo and /verif, runs the repository's test suite there and prints per-test results; removes the directory.
set -u
R=${VERIF_REPO:-/repo}
D=$(mktemp -d /var/tmp/vf-baseline-XXXXXX)
trap 'rm -rf "$D"' EXIT
cmake -G Ninja -S "$R" -B "$D" -DCMAKE_BUILD_TYPE=RelWithDebInfo >"$D/configure.log" 2>&1 || { cat "$D/configure.log"; echo "configure failed"; exit 2; }
cmake --build "$D" --target photospline-test photospline-test-templated photospline-test-fit -j16 >"$D/build.log" 2>&1 || { tail -50 "$D/build.log"; echo "build failed"; exit 2; }
if grep -rq "PHOTOSPLINE_VERIF" "$D/build.ninja" "$D/CMakeCache.txt" 2>/dev/null; then echo "guard unexpectedly defined"; exit 2; fi
ctest --test-dir "$D" -j8 --timeout 900 -V --output-junit "$D/junit.xml" >"$D/ctest.log" 2>&1
rc=$?
python3 - "$D/ctest.log" <<'PY'
import re, sys
cur = {}
names = {}
res = []
for line in open(sys.argv[1], errors='replace'):
    m = re.match(r'^test (\d+)', line)
    m2 = re.match(r'^\s*Start\s+(\d+): (\S+)', line)
    if m2:
        names[m2.group(1)] = m2.group(2)
    m3 = re.match(r'^(\d+): (\w+): (PASS|FAIL)', line)
    if m3:
        res.append((names.get(m3.group(1), m3.group(1)) + '::' + m3.group(2), m3.group(3)))
    m4 = re.match(r'^\s*\d+/\d+ Test\s+#\d+: (\S+) \.+\s*(Passed|\*\*\*Failed|\*\*\*\S+)', line)
    if m4:
        res.append((m4.group(1) + '::' + m4.group(1) + ' (ctest)', 'PASS' if m4.group(2) == 'Passed' else 'FAIL'))
for n, r in res:
    print(r, n)
print('baseline with guard off: %d/%d entries passed' % (sum(1 for _, r in res if r == 'PASS'), len(res)))
PY
tail -5 "$D/ctest.log"
exit $rc
