#!/bin/bash
# usage: tools/confirm_seeded.sh <agent-output-dir> <dest-name> <Cxx>
# Confirms an agent-made change in a scratch worktree of /repo HEAD: demo passes pristine, fails with the patch,
# the repository's own test suite still passes with the patch. Stores everything under /verif/seeded/<dest-name>/.
SRCDIR=$1; NAME=$2; ID=$3
WT=${WTROOT:-/tmp/wt}/$ID   # the path the agent's build.sh defaults to
if [ -e $WT ]; then echo "$WT exists (agent still running?)"; exit 2; fi
DEST=/verif/seeded/$NAME
mkdir -p $DEST
git -C /repo worktree add --detach $WT HEAD >/dev/null 2>&1 || { echo "worktree failed"; exit 2; }
trap 'git -C /repo worktree remove --force $WT >/dev/null 2>&1; rm -rf $WT' EXIT
LOG=$DEST/confirm.log; : > $LOG
for f in $SRCDIR/*; do case "$(basename $f)" in *.log|*.txt|demo|_objs|fitter_objs|scratch|work|meta.json) ;; *) [ -f "$f" ] && cp "$f" $DEST/ ;; esac; done
run_demo() { # $1 = tag
  rm -f $DEST/demo
  ( cd $DEST && sh ./build.sh ) >>$LOG 2>&1 || { echo "demo build failed ($1)" >>$LOG; return 99; }
  [ -x $DEST/demo ] || { echo "no demo binary produced ($1)" >>$LOG; return 98; }
  if [ -f $DEST/run.sh ]; then ( cd $DEST && timeout 600 sh ./run.sh $WT ) >>$LOG 2>&1; rc=$?; else ( cd $DEST && timeout 300 ./demo $DEMO_ARGS ) >>$LOG 2>&1; rc=$?; fi; rm -f $DEST/demo; return $rc
}
echo "== pristine demo" >>$LOG; run_demo pristine; RC0=$?
( cd $WT && git apply $DEST/patch.diff ) >>$LOG 2>&1 || { echo "PATCH DOES NOT APPLY" | tee -a $LOG; exit 3; }
echo "== patched demo" >>$LOG; run_demo patched; RC1=$?
echo "== test suite with patch" >>$LOG
( cd $WT && cmake -G Ninja -S . -B _b -DCMAKE_BUILD_TYPE=RelWithDebInfo >/dev/null 2>&1 && cmake --build _b --target photospline-test photospline-test-templated photospline-test-fit -j6 >>$LOG 2>&1 && ctest --test-dir _b -j3 --timeout 1500 2>&1 | tail -8 ) >>$LOG 2>&1
grep -q "100% tests passed" $LOG && TESTS=pass || TESTS=FAIL
python3 - "$SRCDIR/meta.json" "$DEST/meta.json" "$ID" "$RC0" "$RC1" "$TESTS" <<'PY'
import json, sys
src, dst, pid, rc0, rc1, tests = sys.argv[1:]
try: m = json.load(open(src))
except Exception: m = {}
m['property'] = pid
m['confirmed_by_me'] = {'scratch_worktree_of': '/repo HEAD', 'demo_exit_pristine': int(rc0), 'demo_exit_with_patch': int(rc1), 'existing_tests_with_patch': tests,
                        'commands': 'tools/confirm_seeded.sh (build.sh + demo pristine/patched; cmake+ctest of the three test executables with the patch)'}
json.dump(m, open(dst, 'w'), indent=1)
PY
echo "$NAME: pristine=$RC0 patched=$RC1 tests=$TESTS"
