#!/usr/bin/env python3
"""Regenerates /verif/MANIFEST.json from lib/props.py (single source of truth for what is claimed)."""
import json, os, sys, subprocess
V = os.path.dirname(os.path.dirname(os.path.abspath(__file__)))
sys.path.insert(0, V)
from lib.props import PROPS, NOT_APPLICABLE
ids = [json.loads(l)['id'] for l in open(os.path.join(V, 'properties.jsonl'))]
hook_commits = [l.split()[0] for l in subprocess.check_output(['git', '-C', '/repo', 'log', '--format=%h %s']).decode().splitlines() if l.split(' ', 1)[1].startswith('verif hooks')]
checks = []
for i in ids:
    if i not in PROPS or not PROPS[i].get('claimed', True):
        continue
    p = PROPS[i]
    checks.append(dict(property_id=i, quick_cmd='./check %s --tier quick' % i, thorough_cmd='./check %s --tier thorough' % i,
                       evidence_file='evidence/%s.json' % i, replay_cmd_template='./check %s --replay {path}' % i,
                       engine=p.get('engine', 'vf-driver'),
                       level_claimed=dict(category=p['level'], text=p['level_text'], design_ref=p.get('design_ref', 'DESIGN.md section 4, ' + i)),
                       level_note=p['level_note'], technique=p['technique']))
na = [dict(property_id=i, reason=NOT_APPLICABLE.get(i, 'check under construction in this round; not claimed until its monitor is validated')) for i in ids if i not in [c['property_id'] for c in checks]]
m = dict(version=1, setup_cmd='./check build',
         hooks=dict(guard='PHOTOSPLINE_VERIF', enable='every harness is compiled with -DPHOTOSPLINE_VERIF from /repo\'s working tree (lib/build.py); the repo\'s own CMake build never defines it',
                    baseline_off_cmd='tools/baseline_off.sh', source_commits=hook_commits, add_only=True),
         engines=[dict(name='vf-driver', path='check', serves_properties=[c['property_id'] for c in checks],
                       kind_free_text='python driver (lib/drv.py) running C++ harnesses (harness/*.cpp) built per sanitizer family from /repo sources; '
                                      'forked workers, crash restart, sanitizer-report keys, known-findings matching, evidence writer')],
         checks=checks, not_applicable=na,
         notes='Runtime monitoring and sanitizers only: every verdict is an oracle observing executions of the real code. Exit 2 = inconclusive/harness failure.')
json.dump(m, open(os.path.join(V, 'MANIFEST.json'), 'w'), indent=1)
print('claimed:', [c['property_id'] for c in checks])
