#!/bin/bash
# usage: tools/matrix_wave3.sh [suffixes]  - every stored change with the given suffixes (default "E F") against the current quick check of its property,
# four at a time, in scratch worktrees; the outcome is written to seeded/<name>/meta.json: final_tree_run
SUF=${1:-"E F"}
cd /verif
run_one() { NAME=$1; ID=${NAME%%-*}; CHK=$ID; { [ "$NAME" = "C13-C" ] || [ "$NAME" = "C13-G" ]; } && CHK=C20
  out=$(tools/try_seeded_wt.sh $NAME $CHK 2>&1 | grep "exit="); echo "$out"
  python3 - "$NAME" "$CHK" "$out" <<'PY'
import json,sys,re,subprocess
name,chk,out=sys.argv[1:4]
m=json.load(open('/verif/seeded/%s/meta.json'%name))
ex=re.search(r'exit=(\d+) (\d+) violations: (.*)',out)
head=subprocess.run(['git','-C','/repo','rev-parse','--short','HEAD'],capture_output=True,text=True).stdout.strip()
m['applies_to_repo_commit']=head
m['final_tree_run']=dict(check=chk,tier='quick',seed=1,exit=int(ex.group(1)) if ex else None,violation_keys=int(ex.group(2)) if ex else None,first_keys=(ex.group(3).strip() if ex else out)[:400],repo_commit=head)
json.dump(m,open('/verif/seeded/%s/meta.json'%name,'w'),indent=1)
PY
}
export -f run_one
ls seeded | grep -E -e "-($(echo $SUF | tr ' ' '|'))\$" | xargs -P 4 -I{} bash -c 'run_one {}'
