#!/bin/bash
# usage: redemo.sh <name> <ID> <demo-args>   - re-run only the demonstration (pristine / patched) of a stored change and update meta.json
NAME=$1; ID=$2; shift 2; ARGS="$@"
WT=${WTROOT:-/tmp/wt3}/$ID; DEST=/verif/seeded/$NAME
git -C /repo worktree remove --force $WT >/dev/null 2>&1; rm -rf $WT
git -C /repo worktree add --detach $WT HEAD >/dev/null 2>&1 || exit 2
trap 'git -C /repo worktree remove --force $WT >/dev/null 2>&1; rm -rf $WT' EXIT
LOG=$DEST/confirm.log; echo "== demo re-run with arguments: $ARGS" >> $LOG
run() { rm -f $DEST/demo; ( cd $DEST && sh ./build.sh ) >>$LOG 2>&1 || return 99; ( cd $DEST && timeout 600 ./demo $ARGS ) >>$LOG 2>&1; rc=$?; rm -f $DEST/demo; return $rc; }
echo "== pristine demo" >>$LOG; run; RC0=$?
( cd $WT && git apply $DEST/patch.diff ) || exit 3
echo "== patched demo" >>$LOG; run; RC1=$?
python3 - $DEST/meta.json $RC0 $RC1 "$ARGS" <<'PY'
import json,sys
m=json.load(open(sys.argv[1])); c=m['confirmed_by_me']; c['demo_exit_pristine']=int(sys.argv[2]); c['demo_exit_with_patch']=int(sys.argv[3]); c['demo_arguments']=sys.argv[4]
json.dump(m,open(sys.argv[1],'w'),indent=1)
PY
echo "$NAME: pristine=$RC0 patched=$RC1"
