#!/bin/bash
# usage: tools/sweep.sh <seed> [tier] [properties...]  - every check once at the given seed; prints one line per check, exit 1 if any check did not exit 0
SEED=$1; TIER=${2:-quick}; shift 2 2>/dev/null
PROPS=${@:-C01 C02 C03 C04 C05 C06 C07 C08 C09 C10 C11 C12 C13 C14 C15 C16 C17 C18 C19 C20}
cd "$(dirname "$0")/.."; bad=0
for p in $PROPS; do out=$(./check $p --tier $TIER --seed $SEED 2>&1); rc=$?; echo "seed=$SEED $TIER $p rc=$rc $(echo "$out" | grep -E 'tier=' | tail -1)"; if [ $rc -ne 0 ]; then bad=1; echo "$out" | grep -E "VIOLATION|key=|inconclusive|observed too little" | head -8; fi; done
exit $bad
