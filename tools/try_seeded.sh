#!/bin/bash
# usage: tools/try_seeded.sh <patch.diff> <Cxx> [tier]   - applies the patch to /repo, runs the check, restores /repo
P=$1; ID=$2; TIER=${3:-quick}
cd /verif
if [ -n "$(git -C /repo status --porcelain --untracked-files=no)" ]; then echo "repo has local modifications; refusing"; exit 3; fi
git -C /repo apply "$P" || { echo "patch does not apply"; exit 3; }
./check $ID --tier $TIER > /tmp/t/seeded_$ID.log 2>&1; rc=$?
git -C /repo checkout -- .
grep -E "^VIOLATION|^KNOWN|tier=" /tmp/t/seeded_$ID.log | head -8
echo "exit=$rc"
