#!/bin/bash
# usage: tools/try_seeded_wt.sh <seeded-name> <Cxx> [tier]   - like try_seeded.sh but in a scratch worktree of /repo HEAD (VERIF_REPO), so /repo stays untouched
# and other checks can run meanwhile. The worktree and its build cache are removed afterwards.
NAME=$1; ID=$2; TIER=${3:-quick}
WT=/tmp/wt/try-$NAME; BD=/var/tmp/vfb-try-$NAME
cd /verif
P=seeded/$NAME/patch.diff
git -C /repo worktree add --detach $WT HEAD >/dev/null 2>&1 || { echo "worktree failed"; exit 3; }
trap 'git -C /repo worktree remove --force $WT >/dev/null 2>&1; rm -rf $WT $BD' EXIT
git -C $WT apply /verif/$P || { echo "$NAME: patch does not apply"; exit 3; }
mkdir -p /tmp/t
VERIF_REPO=$WT VERIF_BUILD=$BD VERIF_OUT=/tmp/t/out-$NAME ./check $ID --tier $TIER > /tmp/t/seededwt_$NAME.log 2>&1; rc=$?
echo "$NAME $ID exit=$rc $(grep -c '^VIOLATION' /tmp/t/seededwt_$NAME.log) violations: $(grep -E '^  key=' /tmp/t/seededwt_$NAME.log | head -3 | sed 's/^  key=//' | tr '\n' ' ' | cut -c1-260)"
