#!/usr/bin/env python3-vt
import json, jsonschema, sys, glob
jsonschema.validate(json.load(open('/verif/MANIFEST.json')), json.load(open('/root/.vp/MANIFEST.schema.json')))
es = json.load(open('/root/.vp/EVIDENCE.schema.json'))
m = json.load(open('/verif/MANIFEST.json'))
for c in m['checks']:
    try:
        jsonschema.validate(json.load(open('/verif/' + c['evidence_file'])), es)
    except Exception as e:
        print('INVALID', c['evidence_file'], str(e)[:300]); sys.exit(1)
print('manifest + %d evidence files valid' % len(m['checks']))
