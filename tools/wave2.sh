#!/bin/bash
# usage: tools/wave2.sh <Cxx> [srcroot] [letters]  - confirm the two wave-2 changes of a property (stored as -C/-D) and try the checks against them
ID=$1; SRC=${2:-/tmp/seed_out2}; 
git -C /repo worktree remove --force /tmp/wt2/$ID >/dev/null 2>&1; rm -rf /tmp/wt2/$ID
for x in "A C" "B D"; do set -- $x; WTROOT=/tmp/wt2 tools/confirm_seeded.sh $SRC/$ID/$1 $ID-$2 $ID; tools/try_seeded_wt.sh $ID-$2 $ID; done
