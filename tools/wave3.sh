#!/bin/bash
# usage: tools/wave3.sh <Cxx> [check-id]  - confirm the two wave-3 changes of a property (agent output /tmp/seed_out3/<Cxx>/{A,B}, stored as -E/-F) and try the checks against them
ID=$1; CHK=${2:-$1}; SRC=${SRC:-/tmp/seed_out3}
git -C /repo worktree remove --force /tmp/wt3/$ID >/dev/null 2>&1; rm -rf /tmp/wt3/$ID
for x in "A E" "B F"; do set -- $x; WTROOT=/tmp/wt3 tools/confirm_seeded.sh $SRC/$ID/$1 $ID-$2 $ID; tools/try_seeded_wt.sh $ID-$2 $CHK; done
