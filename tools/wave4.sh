#!/bin/bash
# usage: tools/wave4.sh <Cxx> [check-id]  - confirm the wave-4 changes of a property (agent output /tmp/seed_out4/<Cxx>/{A,B}, stored as -G/-H) and try the checks against them
ID=$1; CHK=${2:-$1}; SRC=${SRC:-/tmp/seed_out4}
git -C /repo worktree remove --force /tmp/wt4/$ID >/dev/null 2>&1; rm -rf /tmp/wt4/$ID
for x in "A G" "B H"; do set -- $x; [ -f $SRC/$ID/$1/patch.diff ] || continue; WTROOT=/tmp/wt4 tools/confirm_seeded.sh $SRC/$ID/$1 $ID-$2 $ID; tools/try_seeded_wt.sh $ID-$2 $CHK; done
